"""Generic driver for a property decided by Kani harnesses over an external harness crate or an
in-crate overlay.  See vlib.py for the rebuild / replay rules."""
import os
import re
import sys
import time

from vlib import (Scratch, Inconclusive, kani, kani_playback_values, native_replay, known_findings,
                  write_evidence, write_replay, log, seed, VERIF)


def finding_for(pid, harness, failed_checks):
    """A known finding matches by role: property + harness + a regex over the failed check text."""
    for k in known_findings().get("known", []):
        if k.get("property") != pid or k.get("harness") != harness:
            continue
        pat = k.get("failed_check_regex", ".*")
        if all(re.search(pat, fc) for fc in failed_checks) and failed_checks:
            return k
    return None


def decide(pid, tier, scratch, crate, metas, cwd=None, timeout_s=900, replay_kw=None,
           harness_timeout=None, extra_replay=None, jobs=None, kani_extra=None):
    """Runs the harnesses in `metas` (name -> meta dict); returns (records, violations, known,
    inconclusive) where violations are natively reproduced counterexamples."""
    names = list(metas)
    # VERIF_SEED only permutes the order harnesses are handed to the solver.
    s = seed()
    if s:
        names = names[s % len(names):] + names[:s % len(names)]
    recs, out, wall = kani(scratch, crate, names, timeout_s=timeout_s, cwd=cwd,
                           harness_timeout=harness_timeout, jobs=jobs, extra=kani_extra)
    violations, known, inconclusive = [], [], []
    for h in names:
        r = recs[h]
        r["meta"] = metas[h]
        log("  harness %-42s %-10s checks=%-6d failed=%d covers=%d/%d time=%s" % (
            h, r["status"], r["checks"], r["failed"], r["covers_sat"], r["covers_total"], r["time_s"]))
        if r["status"] == "SUCCESSFUL":
            need = metas[h].get("min_covers_sat")
            if need is not None:
                # harnesses run from enumerated states: only some witnesses are reachable per state
                if r["covers_sat"] < need:
                    inconclusive.append((h, "fewer vacuity witnesses satisfiable than required (%d < %d of %d)" % (r["covers_sat"], need, r["covers_total"])))
            elif r["covers_total"] and r["covers_sat"] < r["covers_total"]:
                inconclusive.append((h, "vacuity witness not satisfiable (%d/%d)" % (r["covers_sat"], r["covers_total"])))
            want = metas[h].get("covers")
            if want is not None and r["covers_total"] < want:
                inconclusive.append((h, "expected >=%d cover witnesses, saw %d" % (want, r["covers_total"])))
            continue
        if r["status"] != "FAILED":
            inconclusive.append((h, "%s %s" % (r["status"], "; ".join(r["raw_status"][:3]))))
            continue
        fcs = r["failed_checks"]
        only_unwind = fcs and all("unwinding assertion" in f for f in fcs)
        log("    failed checks: %s" % fcs[:6])
        has_kf = any(k.get("property") == pid and k.get("harness") == h for k in known_findings().get("known", []))
        if violations and not has_kf and len(violations) >= 2:
            # two counterexamples of this run were already reproduced natively; the verdict is
            # decided, further failing harnesses are recorded without the (slow) replay
            violations.append({"harness": h, "failed_checks": fcs, "values": [], "native_replay": {"skipped": "two other counterexamples of this run already reproduced"},
                               "what": metas[h].get("desc", "")})
            continue
        cands, pout = kani_playback_values(scratch, crate, h, cwd=cwd, extra=kani_extra)
        if cands is None:
            inconclusive.append((h, "FAILED but no concrete values could be extracted" + (" (unwinding bound hit)" if only_unwind else "")))
            continue
        # one candidate per failed check: replay them in turn until one reproduces natively
        rep, outs, vals = None, None, None
        tried = []
        for desc, cv in cands[:4]:
            r1, o1 = native_replay(scratch, crate, h, cv, cwd=cwd, **(replay_kw or {}))
            tried.append({"failed_check": desc, "values": [str(v) for v in cv], "native_replay": r1})
            log("    solver values for %r: %s -> native replay %s" % (desc[:60], cv, r1))
            if rep is None or any(v == "reproduced" for v in r1.values()):
                rep, outs, vals = r1, o1, cv
            if any(v == "reproduced" for v in r1.values()):
                break
        r["counterexample_values"] = [str(v) for v in vals]
        r["counterexamples_tried"] = tried
        r["native_replay"] = rep
        if any(v == "reproduced" for v in rep.values()) and extra_replay is not None:
            # second opinion from the real codecs / real endpoints (tokio runtime): the
            # counterexample's values are fed to /verif/replay's integration tests
            ex = extra_replay(h, vals)
            if ex is not None:
                r["real_endpoint_replay"] = ex
                log("    real codec/endpoint replay: %s" % ("reproduced" if ex["reproduced"] else "NOT reproduced"))
                for l in ex["output"].splitlines()[-8:]:
                    log("      | " + l)
                if not ex["reproduced"]:
                    inconclusive.append((h, "counterexample reproduces in the harness but not against the real codec/endpoint: harness contract too strict?"))
                    continue
        if any(v == "reproduced" for v in rep.values()):
            kf = finding_for(pid, h, fcs)
            entry = {"harness": h, "failed_checks": fcs, "values": [str(v) for v in vals],
                     "native_replay": rep, "what": metas[h].get("desc", ""),
                     "replay_output_tail": {k: v[-1500:] for k, v in outs.items()}}
            if kf:
                known.append((kf, entry))
            else:
                violations.append(entry)
        else:
            inconclusive.append((h, "counterexample did not reproduce natively: %s (encoding/stub problem, not reported as violation)" % rep))
    return recs, violations, known, inconclusive, wall


def finish(pid, tier, t0, recs, violations, known, inconclusive, static, extra_cov=None):
    """Writes evidence, prints verdict lines, returns the exit code."""
    samples = []
    nontrivial = 0
    checks = 0
    solver_time = 0.0
    for h, r in recs.items():
        need = r.get("meta", {}).get("min_covers_sat")
        ok = r["status"] == "SUCCESSFUL" and r["covers_total"] > 0 and (r["covers_sat"] == r["covers_total"] if need is None else r["covers_sat"] >= need)
        if ok:
            nontrivial += 1
        checks += r["checks"]
        solver_time += r["time_s"] or 0
        samples.append({
            "harness": h,
            "what": r.get("meta", {}).get("desc"),
            "symbolic_inputs": r.get("meta", {}).get("symbolic"),
            "bounds": r.get("meta", {}).get("bounds"),
            "verdict": r["status"],
            "assertions_decided": r["checks"],
            "failed": r["failed"],
            "cover_witnesses": "%d/%d" % (r["covers_sat"], r["covers_total"]),
            "kani_stubs_applied": r.get("stubs"),
            "solver_time_s": r["time_s"],
            "counterexample_values": r.get("counterexample_values"),
            "native_replay": r.get("native_replay"),
            "real_endpoint_replay": r.get("real_endpoint_replay"),
        })
    cov = {
        "evaluations": max(checks, 1),
        "distinct_nontrivial": nontrivial,
        "rule": "evaluations = assertion/safety checks CBMC decided (each over ALL values of the symbolic inputs within the bounds); "
                "distinct_nontrivial = harnesses that verified AND whose kani::cover! vacuity witnesses were all satisfiable; "
                "samples = one record per harness (query) with its bounds, verdict and any counterexample",
        "samples": samples,
        "queries_discharged": len(recs),
        "solver": "CBMC 6.11.0 / cadical via Kani 0.68.0",
        "solver_time_s": round(solver_time, 2),
        "exhaustive": False,
        "inconclusive": ["%s: %s" % x for x in inconclusive],
        "known_findings_reported": [k[0].get("id") for k in known],
    }
    cov.update(static.get("coverage", {}))
    if extra_cov:
        cov.update(extra_cov)
    write_evidence(pid, tier, t0, cov, static.get("assumptions", []), len(violations))
    for kf, entry in known:
        log("KNOWN-FINDING: property=%s %s [%s: %s]" % (pid, kf.get("what", ""), kf.get("id"), entry["harness"]))
    if violations:
        p = write_replay(pid, {"property": pid, "violations": violations,
                               "how_to_replay": "cd /verif && python3 run.py %s --replay %s" % (pid, os.path.join(VERIF, "evidence", pid + ".replay.json"))})
        for v in violations:
            log("  violation: %s -> %s" % (v["harness"], v["failed_checks"][:3]))
        log("VIOLATION property=%s replay=%s" % (pid, p))
        return 1
    if inconclusive:
        for h, why in inconclusive:
            log("INCONCLUSIVE property=%s harness=%s: %s" % (pid, h, why))
        return 2
    log("OK property=%s tier=%s harnesses=%d checks=%d solver_time=%.1fs" % (pid, tier, len(recs), checks, solver_time))
    return 0
