"""Shared machinery for the solver-based checks of google/tarpc (see /verif/DESIGN.md).

Every check
  * copies /repo's CURRENT WORKING TREE to a scratch directory (never builds inside /repo),
  * points the harness crates at that copy, runs Kani/CBMC (or the MIR->SMT engine),
  * on a failed harness extracts the solver's concrete values, replays them NATIVELY against the
    ordinary build of the same copy (dev and release), and only then reports a violation,
  * writes /verif/evidence/<id>.json and removes the scratch directory.
"""
import fcntl
import hashlib
import json
import os
import re
import shutil
import subprocess
import sys
import time

VERIF = os.path.dirname(os.path.dirname(os.path.abspath(__file__)))
REPO = os.environ.get("VERIF_REPO", "/repo")
SCRATCH_ROOT = os.environ.get("VERIF_SCRATCH", "/tmp/verif-scratch")
CACHE = os.path.join(VERIF, ".cache")
EVID = os.path.join(VERIF, "evidence")
NCPU = os.cpu_count() or 4

ENV = dict(os.environ)
ENV.update({"CARGO_NET_OFFLINE": "true", "CARGO_TERM_COLOR": "never"})
ENV.pop("RUSTFLAGS", None)


def log(*a):
    print(*a, flush=True)


def seed():
    try:
        return int(os.environ.get("VERIF_SEED", "0"))
    except ValueError:
        return 0


class Inconclusive(Exception):
    """Timeout, OOM, tool error, unsatisfied vacuity witness, non-reproducing counterexample."""


class Scratch:
    """A locked scratch directory holding a copy of /repo's working tree and of /verif/harness."""

    def __init__(self, name):
        self.name = name
        self.root = os.path.join(SCRATCH_ROOT, name)
        self.repo = os.path.join(self.root, "repo")
        self.harness = os.path.join(self.root, "harness")
        self.target = os.path.join(CACHE, "target-" + name)
        self._lock = None

    def __enter__(self):
        os.makedirs(SCRATCH_ROOT, exist_ok=True)
        os.makedirs(CACHE, exist_ok=True)
        self._lock = open(os.path.join(SCRATCH_ROOT, self.name + ".lock"), "w")
        fcntl.flock(self._lock, fcntl.LOCK_EX)
        shutil.rmtree(self.root, ignore_errors=True)
        os.makedirs(self.root)
        self.copy_repo()
        shutil.copytree(os.path.join(VERIF, "harness"), self.harness, symlinks=True)
        shutil.copytree(os.path.join(VERIF, "replay"), os.path.join(self.root, "replay"), symlinks=True)
        shutil.copy(os.path.join(self.repo, "Cargo.lock"), os.path.join(self.root, "replay", "Cargo.lock"))
        return self

    def __exit__(self, *exc):
        shutil.rmtree(self.root, ignore_errors=True)
        try:
            fcntl.flock(self._lock, fcntl.LOCK_UN)
            self._lock.close()
        except Exception:
            pass
        return False

    def copy_repo(self):
        def ign(d, names):
            return [n for n in names if n in ("target", ".git")]
        shutil.copytree(REPO, self.repo, ignore=ign, symlinks=True)
        # Cargo decides freshness by mtime; copytree preserves mtimes.  To be independent of
        # mtime games, any file whose CONTENT differs from what the cached target dir was last
        # built from gets mtime = now.
        man_path = os.path.join(self.target, "verif-srchash.json")
        try:
            old = json.load(open(man_path))
        except Exception:
            old = {}
        new = {}
        now = time.time()
        for dp, dn, fn in os.walk(self.repo):
            for f in fn:
                p = os.path.join(dp, f)
                if os.path.islink(p):
                    continue
                rel = os.path.relpath(p, self.repo)
                h = hashlib.sha256(open(p, "rb").read()).hexdigest()
                new[rel] = h
                if old.get(rel) != h:
                    os.utime(p, (now, now))
        os.makedirs(self.target, exist_ok=True)
        json.dump(new, open(man_path, "w"))
        self.src_digest = hashlib.sha256(json.dumps(new, sort_keys=True).encode()).hexdigest()[:16]

    def src(self, rel):
        return open(os.path.join(self.repo, rel)).read()


def run(cmd, cwd=None, timeout=None, env=None, mem_gb=None):
    """Runs a command; returns (rc, output, wall_s).  rc None = timeout."""
    t0 = time.time()
    pre = None
    if mem_gb:
        import resource

        def pre():
            lim = int(mem_gb * (1 << 30))
            resource.setrlimit(resource.RLIMIT_AS, (lim, lim))
            os.setsid()
    else:
        pre = os.setsid
    p = subprocess.Popen(cmd, cwd=cwd, env=env or ENV, stdout=subprocess.PIPE,
                         stderr=subprocess.STDOUT, text=True, preexec_fn=pre, errors="replace")
    try:
        out, _ = p.communicate(timeout=timeout)
        return p.returncode, out, time.time() - t0
    except subprocess.TimeoutExpired:
        try:
            os.killpg(p.pid, 9)
        except Exception:
            pass
        out, _ = p.communicate()
        return None, out, time.time() - t0


# ------------------------------------------------------------------------------ Kani
HARNESS_RE = re.compile(r"Checking harness ([\w:]+)\.\.\.")


def parse_kani(out):
    """Splits cargo-kani output (terse, possibly -j) into per-harness result records.  With -j
    every line a worker prints is prefixed `Thread N:`; the first line of a block names the
    harness, later blocks of the same thread belong to the harness that thread last started."""
    res = {}
    cur = None
    by_thread = {}
    for ln in out.splitlines():
        tm = re.match(r"Thread (\d+): ?(.*)", ln)
        thread = None
        if tm:
            thread, ln = tm.group(1), tm.group(2)
        m = HARNESS_RE.search(ln)
        if m:
            cur = {"harness": m.group(1).split("::")[-1], "status": None, "checks": 0, "failed": 0,
                   "unreachable": 0, "covers_sat": 0, "covers_total": 0, "time_s": None,
                   "failed_checks": [], "stubs": [], "raw_status": []}
            res[cur["harness"]] = cur
            if thread is not None:
                by_thread[thread] = cur
            continue
        if thread is not None and thread in by_thread:
            cur = by_thread[thread]
        if cur is None:
            continue
        m = re.search(r"- Stub: (.*)", ln)
        if m:
            cur["stubs"].append(re.sub(r"\s+", "", m.group(1)))
        m = re.search(r"\*\* (\d+) of (\d+) failed(?: \((.*)\))?", ln)
        if m:
            cur["failed"], cur["checks"] = int(m.group(1)), int(m.group(2))
            extra = m.group(3) or ""
            mu = re.search(r"(\d+) unreachable", extra)
            if mu:
                cur["unreachable"] = int(mu.group(1))
            mu = re.search(r"(\d+) undetermined", extra)
            if mu:
                cur["undetermined"] = int(mu.group(1))
        m = re.search(r"\*\* (\d+) of (\d+) cover properties satisfied", ln)
        if m:
            cur["covers_sat"], cur["covers_total"] = int(m.group(1)), int(m.group(2))
        m = re.search(r"Failed Checks: (.*)", ln)
        if m:
            cur["failed_checks"].append(m.group(1).strip())
        m = re.search(r"VERIFICATION:- (\w+)", ln)
        if m:
            cur["status"] = m.group(1)
        if "CBMC failed" in ln or "CBMC timed out" in ln or "Status: ERROR" in ln or "out of memory" in ln.lower() or "CBMC crashed" in ln:
            cur["raw_status"].append(ln.strip())
        m = re.search(r"Verification Time: ([\d.]+)s", ln)
        if m:
            cur["time_s"] = float(m.group(1))
    return res


def kani(scratch, crate, harnesses=None, timeout_s=600, jobs=None, extra=None, cwd=None,
         harness_timeout=None):
    """Runs `cargo kani` on a harness crate (or, with cwd, on a package of the repo copy).
    Returns (records, raw_output, wall).  A harness that did not report is recorded as ERROR."""
    cwd = cwd or os.path.join(scratch.harness, crate)
    lock = os.path.join(scratch.repo, "Cargo.lock")
    if os.path.dirname(cwd) == scratch.harness and not os.path.exists(os.path.join(cwd, "Cargo.lock")):
        shutil.copy(lock, os.path.join(cwd, "Cargo.lock"))
    cmd = ["cargo", "kani", "-Z", "stubbing", "-Z", "unstable-options", "--output-format", "terse",
           "--target-dir", os.path.join(scratch.target, crate)]
    n = len(harnesses) if harnesses else NCPU
    cmd += ["-j", str(jobs or max(1, min(n, NCPU)))]
    if harness_timeout:
        cmd += ["--harness-timeout", str(int(harness_timeout))]
    for h in harnesses or []:
        cmd += ["--harness", h]
    cmd += extra or []
    rc, out, wall = run(cmd, cwd=cwd, timeout=timeout_s)
    os.makedirs(os.path.join(CACHE, "logs"), exist_ok=True)
    open(os.path.join(CACHE, "logs", "%s-%s.kani.log" % (scratch.name, crate)), "w").write(out)
    recs = parse_kani(out)
    if not recs or rc not in (0, 1) or (rc == 1 and not any(r["status"] == "FAILED" for r in recs.values())):
        log("---- cargo kani output tail (rc=%s) ----" % rc)
        log("\n".join([l for l in out.splitlines() if not l.startswith("warning: unused")][-40:]))
    for h in harnesses or []:
        if h not in recs:
            recs[h] = {"harness": h, "status": "ERROR", "checks": 0, "failed": 0, "covers_sat": 0,
                       "covers_total": 0, "time_s": None, "failed_checks": [],
                       "raw_status": ["no result (rc=%s)" % rc], "stubs": [], "unreachable": 0}
    for r in recs.values():
        if r["status"] is None:
            r["status"] = "ERROR"
            r["raw_status"].append("no verdict (rc=%s)" % rc)
        # Kani prints VERIFICATION:- FAILED also when CBMC was killed, timed out or ran out of
        # memory: that is no verdict
        if r["status"] == "FAILED" and not r["failed_checks"] and r["checks"] == 0:
            r["status"] = "TIMEOUT" if any("timed out" in x for x in r["raw_status"]) else "ERROR"
    if rc is None:
        for r in recs.values():
            if r["time_s"] is None:
                r["status"] = "TIMEOUT"
    return recs, out, wall


VEC_RE = re.compile(r"vec!\[([\d,\s]*)\]")


def kani_playback_values(scratch, crate, harness, timeout_s=900, cwd=None, extra=None):
    """Re-runs one failing harness with concrete playback; returns the solver's values as a list
    of unsigned little-endian integers, in the order the harness drew them."""
    cwd = cwd or os.path.join(scratch.harness, crate)
    cmd = ["cargo", "kani", "-Z", "stubbing", "-Z", "unstable-options", "-Z", "concrete-playback",
           "--concrete-playback=print", "--target-dir", os.path.join(scratch.target, crate),
           "--harness", harness] + (extra or [])
    rc, out, wall = run(cmd, cwd=cwd, timeout=timeout_s)
    # Kani prints one playback test per FAILED CHECK and one per SATISFIED COVER; only the former
    # are counterexamples.  Returns the value vectors of the failed checks (deduplicated, in order).
    cands = []
    for blk in re.finditer(r"/// Check for `(\w+)`: \"(.*?)\"\n.*?let concrete_vals: Vec<Vec<u8>> = vec!\[(.*?)\n\s*\];", out, re.S):
        kind, desc, body = blk.group(1), blk.group(2), blk.group(3)
        if kind == "cover":
            continue
        vals = []
        for v in VEC_RE.finditer(body):
            bs = [int(x) for x in v.group(1).replace(" ", "").split(",") if x != ""]
            vals.append(int.from_bytes(bytes(bs), "little"))
        if vals not in [c[1] for c in cands]:
            cands.append((desc, vals))
    if not cands:
        return None, out
    return cands, out


def native_replay(scratch, crate, harness, values, profiles=("dev", "release"), cwd=None,
                  timeout_s=900, as_test=False, rustflags="", test_name="verif_replay_entry", cargo_extra=None):
    """Runs the SAME harness body natively (ordinary rustc, real std, real tarpc build of the
    scratch copy) on the solver's values.  Returns dict profile -> 'reproduced'|'passed'|'assume'|'error'."""
    cwd = cwd or os.path.join(scratch.harness, crate)
    env = dict(ENV)
    env["VERIF_REPLAY_VALUES"] = ",".join(str(v) for v in values)
    env["VERIF_REPLAY_HARNESS"] = harness
    env["RUSTFLAGS"] = rustflags
    env["CARGO_TARGET_DIR"] = os.path.join(scratch.target, crate + "-native")
    res = {}
    outs = {}
    for prof in profiles:
        if as_test is not False and as_test is not None:
            # in-crate overlay harnesses: the replay entry is a #[test] of the scratch copy's lib
            # (as_test = extra cargo arguments, possibly none)
            cmd = ["cargo", "test", "--offline", "--lib"] + list(as_test) + (["--release"] if prof == "release" else []) + \
                  ["--", test_name, "--nocapture", "--test-threads", "1"]
        else:
            cmd = ["cargo", "run", "--offline", "--quiet", "--bin", "replay"] + (cargo_extra or []) + (["--release"] if prof == "release" else []) + ["--", harness]
        rc, out, _ = run(cmd, cwd=cwd, timeout=timeout_s, env=env)
        outs[prof] = out[-3000:]
        if "REPLAY-ASSUME-FAILED" in out:
            res[prof] = "assume"
        elif "REPLAY-PASSED" in out and rc == 0:
            res[prof] = "passed"
        elif "panicked at" in out and "REPLAY-ENTERED" in out:
            # cargo itself exits 101 for a build/usage error too: only a panic of the harness
            # body, after the replay entry point was reached, counts as a reproduction
            res[prof] = "reproduced"
        else:
            res[prof] = "error"
    return res, outs


# ------------------------------------------------------------------------------ findings
def known_findings():
    p = os.path.join(VERIF, "known_findings.json")
    try:
        return json.load(open(p))
    except Exception:
        return {"known": [], "fixed": []}


# ------------------------------------------------------------------------------ evidence
def write_evidence(pid, tier, t0, coverage, assumptions, violations, level="model_checking"):
    os.makedirs(EVID, exist_ok=True)
    ev = {
        "property_id": pid,
        "tier": tier,
        "seed": seed(),
        "level": level,
        "coverage": coverage,
        "assumptions": assumptions,
        "wall_s": round(time.time() - t0, 2),
        "violations": violations,
    }
    tmp = os.path.join(EVID, pid + ".json.tmp")
    json.dump(ev, open(tmp, "w"), indent=1)
    os.replace(tmp, os.path.join(EVID, pid + ".json"))
    if not violations:
        # a replay file left by an earlier violating run must not outlive a clean verdict
        try:
            os.remove(os.path.join(EVID, pid + ".replay.json"))
        except OSError:
            pass
    return ev


def write_replay(pid, obj):
    os.makedirs(EVID, exist_ok=True)
    p = os.path.join(EVID, pid + ".replay.json")
    json.dump(obj, open(p, "w"), indent=1)
    return p


# ------------------------------------------------------------------------------ overlay
def _balanced_arg(text, start):
    """text[start] is just after '(' ; returns the substring up to the matching ')'."""
    depth, i = 1, start
    while i < len(text):
        c = text[i]
        if c == "(":
            depth += 1
        elif c == ")":
            depth -= 1
            if depth == 0:
                return text[start:i], i
        i += 1
    raise Inconclusive("unbalanced parentheses while extracting an expression")


def _fn_body(src, fn_name):
    m = re.search(r"fn\s+%s\s*(<[^>]*>)?\s*\(" % re.escape(fn_name), src)
    if not m:
        raise Inconclusive("function %s not found in the copied source" % fn_name)
    i = src.index("{", m.end())
    depth, j = 1, i + 1
    while j < len(src) and depth:
        depth += {"{": 1, "}": -1}.get(src[j], 0)
        j += 1
    return src[i + 1:j - 1]


def extract_timer_arming(src, fn_name):
    """From `fn_name` returns (let-statements, argument expression) of the
    `self.deadlines.insert(request_id, <arg>)` call: the lets are those between the start of the
    `Vacant` arm and the insert that do not touch `self` or the abort handle."""
    body = _fn_body(src, fn_name)
    # the timer queue's insert: `self.<field>.insert(request_id, <timeout>)` (two arguments, the first
    # being the request id) - whatever the field is called
    m, args = None, None
    for cand in re.finditer(r"self\s*\.\s*\w+\s*\.\s*insert\s*\(", body):
        a, _ = _balanced_arg(body, cand.end())
        depth, parts, cur = 0, [], ""
        for c in a:
            depth += {"(": 1, ")": -1, "[": 1, "]": -1, "{": 1, "}": -1}.get(c, 0)
            if c == "," and depth == 0:
                parts.append(cur); cur = ""
            else:
                cur += c
        if cur.strip():
            parts.append(cur)
        if len(parts) == 2 and re.fullmatch(r"\s*\*?request_id\s*", parts[0]):
            m, args = cand, a
            break
    if not m:
        raise Inconclusive("%s: no `self.<timers>.insert(request_id, <timeout>)` call found" % fn_name)
    arg = parts[1].strip()
    arm = body.rfind("Vacant", 0, m.start())
    pre = body[arm:m.start()] if arm >= 0 else body[:m.start()]
    pre = pre[pre.index("{") + 1:] if "{" in pre else pre
    lets = []
    for stmt in re.findall(r"let\s+[^;]*;", pre, re.S):
        if "self." in stmt or "AbortHandle" in stmt or "deadline_key" in stmt:
            continue
        lets.append(" ".join(stmt.split()))
    return lets, arg


def extract_span_deadline(src, anchor):
    """The Display expression of the `rpc.deadline = %<expr>` span field nearest to `anchor`
    (a regex): after it for info_span!, before it for #[tracing::instrument] attributes."""
    a = re.search(anchor, src)
    if not a:
        raise Inconclusive("anchor %r not found" % anchor)
    pat = r"rpc\.deadline\s*=\s*%"
    m = re.search(pat, src[a.start():])
    back = list(re.finditer(pat, src[:a.start()]))
    if back and (not m or (a.start() - back[-1].end()) < m.start()):
        start, text = back[-1].end(), src
    elif m:
        start, text = a.start() + m.end(), src
    else:
        raise Inconclusive("no rpc.deadline span field near %r" % anchor)
    depth, i = 0, start
    while i < len(text):
        c = text[i]
        if c in "([{":
            depth += 1
        elif c in ")]}":
            if depth == 0:
                break
            depth -= 1
        elif c == "," and depth == 0:
            break
        i += 1
    return " ".join(text[start:i].split())


def wheel_max_duration_ms():
    """Reads NUM_LEVELS / MAX_DURATION from the pinned tokio-util source in the cargo registry."""
    import glob
    lock = open(os.path.join(REPO, "Cargo.lock")).read()
    m = re.search(r'name = "tokio-util"\nversion = "([^"]+)"', lock)
    ver = m.group(1) if m else "*"
    for p in glob.glob(os.path.expanduser("~/.cargo/registry/src/*/tokio-util-%s/src/time/wheel/mod.rs" % ver)):
        s = open(p).read()
        nl = re.search(r"const NUM_LEVELS: usize = (\d+);", s)
        md = re.search(r"const MAX_DURATION: u64 = \(1 << \((\d+) \* NUM_LEVELS\)\) - 1;", s)
        if nl and md:
            return (1 << (int(md.group(1)) * int(nl.group(1)))) - 1, ver
    raise Inconclusive("tokio-util wheel constants not found")


def inject_c12_overlay(scratch):
    """C12: harness module injected as a CHILD of `server` (it builds TrackedRequest/ResponseGuard
    values, whose fields are private to that module), plus logging compiled out in the scratch
    copy's Cargo.toml (tracing/log `max_level_off`: the documented static filter; no source change)."""
    tsrc = os.path.join(scratch.repo, "tarpc", "src")
    shutil.copy(os.path.join(VERIF, "overlay", "tarpc_overlay_c12.rs"), os.path.join(tsrc, "server", "verif_overlay_c12.rs"))
    shutil.copy(os.path.join(VERIF, "harness", "common", "nd.rs"), os.path.join(tsrc, "verif_nd.rs"))
    with open(os.path.join(tsrc, "server.rs"), "a") as f:
        f.write("\n#[cfg(any(kani, verif_replay))]\n#[path = \"server/verif_overlay_c12.rs\"]\nmod verif_overlay_c12;\n")
    lib = os.path.join(tsrc, "lib.rs")
    if "pub mod nd;" not in open(lib).read():
        with open(lib, "a") as f:
            f.write("\n#[cfg(any(kani, verif_replay))]\n#[allow(missing_docs, dead_code, unused_imports, unused_macros)]\n#[path = \"verif_nd.rs\"]\npub mod nd;\n")
    # the Arc::drop_slow stub names the (unstable) Allocator trait: enable it for the Kani build only
    lt = open(lib).read()
    open(lib, "w").write("#![cfg_attr(kani, feature(allocator_api))]\n" + lt)
    # tokio's mpsc behind RequestCancellation (dropped with every refused TrackedRequest) wakes a
    # waker through a raw vtable pointer on sender drop: replaced under Kani by the waker-less model
    shutil.copy(os.path.join(VERIF, "overlay", "verif_env.rs"), os.path.join(tsrc, "verif_env.rs"))
    with open(lib, "a") as fh:
        fh.write("\n#[cfg(kani)]\n#[path = \"verif_env.rs\"]\npub(crate) mod verif_env;\n")
    cf = os.path.join(tsrc, "cancellations.rs")
    cc = open(cf).read()
    if "use tokio::sync::mpsc;" not in cc:
        raise Inconclusive("cancellations.rs: `use tokio::sync::mpsc;` not found")
    open(cf, "w").write(cc.replace("use tokio::sync::mpsc;", "#[cfg(not(kani))]\nuse tokio::sync::mpsc;\n#[cfg(kani)]\nuse crate::verif_env::mpsc;", 1))
    cargo = os.path.join(scratch.repo, "tarpc", "Cargo.toml")
    c = open(cargo).read()
    c2 = re.sub(r'(tracing = \{ version = "0\.1", default-features = false, features = \[)', r'\1\n    "max_level_off",', c, count=1)
    if c2 == c:
        raise Inconclusive("could not add max_level_off to tarpc's tracing dependency in the scratch copy")
    c2 = c2.replace("[dependencies]\n", "[dependencies]\nlog = { version = \"0.4\", features = [\"max_level_off\"] }\n", 1)
    open(cargo, "w").write(c2)


def _common_inject(scratch, env_cfg):
    """nd + verif_env modules at the crate root, allocator_api for the Arc::drop_slow stub, logging off."""
    tsrc = os.path.join(scratch.repo, "tarpc", "src")
    shutil.copy(os.path.join(VERIF, "overlay", "verif_env.rs"), os.path.join(tsrc, "verif_env.rs"))
    shutil.copy(os.path.join(VERIF, "harness", "common", "nd.rs"), os.path.join(tsrc, "verif_nd.rs"))
    lib = os.path.join(tsrc, "lib.rs")
    lt = open(lib).read()
    if "feature(allocator_api)" not in lt:
        lt = "#![cfg_attr(kani, feature(allocator_api))]\n#![cfg_attr(kani, recursion_limit = \"1024\")]\n" + lt
    if "pub mod nd;" not in lt:
        lt += "\n#[cfg(any(kani, verif_replay))]\n#[allow(missing_docs, dead_code, unused_imports, unused_macros)]\n#[path = \"verif_nd.rs\"]\npub mod nd;\n"
    if "mod verif_env;" not in lt:
        lt += "\n#[cfg(%s)]\n#[path = \"verif_env.rs\"]\npub(crate) mod verif_env;\n" % env_cfg
    open(lib, "w").write(lt)
    cargo = os.path.join(scratch.repo, "tarpc", "Cargo.toml")
    cc = open(cargo).read()
    if '"max_level_off"' not in cc:
        c2 = re.sub(r'(tracing = \{ version = "0\.1", default-features = false, features = \[)', r'\1\n    "max_level_off",', cc, count=1)
        if c2 == cc:
            raise Inconclusive("could not add max_level_off to tarpc's tracing dependency in the scratch copy")
        c2 = c2.replace("[dependencies]\n", "[dependencies]\nlog = { version = \"0.4\", features = [\"max_level_off\"] }\n", 1)
        open(cargo, "w").write(c2)


def _swap(path, pairs):
    c = open(path).read()
    for a, b in pairs:
        if a not in c:
            raise Inconclusive("%s: %r not found, cannot swap the environment models in" % (os.path.basename(path), a))
        c = c.replace(a, b, 1)
    open(path, "w").write(c)


def inject_server_table_overlay(scratch):
    """Server in-flight table: harness as a child module of server/in_flight_requests.rs; FnvHashMap
    and tokio_util's DelayQueue replaced by the models under cfg(any(kani, verif_replay)) (the real
    DelayQueue cannot run without a tokio runtime, so the native replay uses the models too)."""
    cfg = "any(kani, verif_replay)"
    _common_inject(scratch, cfg)
    tsrc = os.path.join(scratch.repo, "tarpc", "src")
    shutil.copy(os.path.join(VERIF, "overlay", "tarpc_overlay_sift.rs"), os.path.join(tsrc, "server", "verif_overlay_sift.rs"))
    f = os.path.join(tsrc, "server", "in_flight_requests.rs")
    _swap(f, [("use fnv::FnvHashMap;", "#[cfg(not(%s))]\nuse fnv::FnvHashMap;\n#[cfg(%s)]\nuse crate::verif_env::FnvHashMap;" % (cfg, cfg)),
              ("    collections::hash_map,\n", ""),
              ("use tokio_util::time::delay_queue::{self, DelayQueue};",
               "#[cfg(not(%s))]\nuse tokio_util::time::delay_queue::{self, DelayQueue};\n#[cfg(%s)]\nuse crate::verif_env::delay_queue::{self, DelayQueue};\n"
               "#[cfg(not(%s))]\nuse std::collections::hash_map;\n#[cfg(%s)]\nuse crate::verif_env::hash_map;" % (cfg, cfg, cfg, cfg))])
    with open(f, "a") as fh:
        fh.write("\n#[cfg(%s)]\n#[path = \"verif_overlay_sift.rs\"]\nmod verif_overlay_sift;\n" % cfg)


def inject_exec_overlay(scratch):
    """Handler side of C11: harness as a child module of `server` (InFlightRequest / ResponseGuard
    fields are private to it).  Under cfg(kani) ONLY, tokio's mpsc in server.rs (response buffer)
    and cancellations.rs (cancellation queue) is replaced by the waker-less array model; the native
    replay of a counterexample runs against the real tokio channels."""
    _common_inject(scratch, "any(kani, verif_replay)")
    tsrc = os.path.join(scratch.repo, "tarpc", "src")
    shutil.copy(os.path.join(VERIF, "overlay", "tarpc_overlay_exec.rs"), os.path.join(tsrc, "server", "verif_overlay_exec.rs"))
    _swap(os.path.join(tsrc, "server.rs"), [("use ::tokio::sync::mpsc;", "#[cfg(not(kani))]\nuse ::tokio::sync::mpsc;\n#[cfg(kani)]\nuse crate::verif_env::mpsc;")])
    cf = os.path.join(tsrc, "cancellations.rs")
    if "crate::verif_env::mpsc" not in open(cf).read():
        _swap(cf, [("use tokio::sync::mpsc;", "#[cfg(not(kani))]\nuse tokio::sync::mpsc;\n#[cfg(kani)]\nuse crate::verif_env::mpsc;")])
    with open(os.path.join(tsrc, "server.rs"), "a") as fh:
        fh.write("\n#[cfg(any(kani, verif_replay))]\n#[path = \"server/verif_overlay_exec.rs\"]\nmod verif_overlay_exec;\n")


def inject_dispatch_overlay(scratch, src_dir="experiments"):
    """Client dispatch (write side): harness as a child module of `client`, in a scratch copy that
    has NOT had the table overlays injected (it swaps tokio's oneshot too, which the table
    harnesses use for real).  FnvHashMap / DelayQueue = models (kani and replay); tokio mpsc and
    oneshot = models of verif_env_disp.rs under cfg(kani) only (native replay: real tokio)."""
    cfg = "any(kani, verif_replay)"
    _common_inject(scratch, cfg)
    tsrc = os.path.join(scratch.repo, "tarpc", "src")
    shutil.copy(os.path.join(VERIF, src_dir, "verif_env_disp.rs"), os.path.join(tsrc, "verif_env_disp.rs"))
    shutil.copy(os.path.join(VERIF, src_dir, "tarpc_overlay_disp.rs"), os.path.join(tsrc, "client", "verif_overlay_disp.rs"))
    with open(os.path.join(tsrc, "lib.rs"), "a") as fh:
        fh.write("\n#[cfg(kani)]\n#[path = \"verif_env_disp.rs\"]\npub(crate) mod verif_env_disp;\n")
    f = os.path.join(tsrc, "client", "in_flight_requests.rs")
    _swap(f, [("use fnv::FnvHashMap;", "#[cfg(not(%s))]\nuse fnv::FnvHashMap;\n#[cfg(%s)]\nuse crate::verif_env::FnvHashMap;" % (cfg, cfg)),
              ("    collections::hash_map,\n", ""),
              ("use tokio_util::time::delay_queue::{self, DelayQueue};",
               "#[cfg(not(%s))]\nuse tokio_util::time::delay_queue::{self, DelayQueue};\n#[cfg(%s)]\nuse crate::verif_env::delay_queue::{self, DelayQueue};\n"
               "#[cfg(not(%s))]\nuse std::collections::hash_map;\n#[cfg(%s)]\nuse crate::verif_env::hash_map;" % (cfg, cfg, cfg, cfg)),
              ("use tokio::sync::oneshot;", "#[cfg(not(kani))]\nuse tokio::sync::oneshot;\n#[cfg(kani)]\nuse crate::verif_env_disp::oneshot;")])
    _swap(os.path.join(tsrc, "client.rs"), [("use tokio::sync::{mpsc, oneshot};", "#[cfg(not(kani))]\nuse tokio::sync::{mpsc, oneshot};\n#[cfg(kani)]\nuse crate::verif_env_disp::{mpsc, oneshot};")])
    _swap(os.path.join(tsrc, "cancellations.rs"), [("use tokio::sync::mpsc;", "#[cfg(not(kani))]\nuse tokio::sync::mpsc;\n#[cfg(kani)]\nuse crate::verif_env_disp::mpsc;")])
    with open(os.path.join(tsrc, "client.rs"), "a") as fh:
        fh.write("\n#[cfg(any(kani, verif_replay))]\n#[path = \"client/verif_overlay_disp.rs\"]\nmod verif_overlay_disp;\n")


def inject_server_channel_overlay(scratch):
    """BaseChannel: server table swaps + tokio mpsc model in cancellations.rs + harness as a child of `server`."""
    inject_server_table_overlay(scratch)
    tsrc = os.path.join(scratch.repo, "tarpc", "src")
    cfg = "any(kani, verif_replay)"
    _swap(os.path.join(tsrc, "cancellations.rs"), [("use tokio::sync::mpsc;", "#[cfg(not(%s))]\nuse tokio::sync::mpsc;\n#[cfg(%s)]\nuse crate::verif_env::mpsc;" % (cfg, cfg))])
    shutil.copy(os.path.join(VERIF, "experiments", "tarpc_overlay_chan.rs"), os.path.join(tsrc, "server", "verif_overlay_chan.rs"))
    with open(os.path.join(tsrc, "server.rs"), "a") as fh:
        fh.write("\n#[cfg(%s)]\n#[path = \"server/verif_overlay_chan.rs\"]\nmod verif_overlay_chan;\n" % cfg)


def inject_client_table_overlay(scratch):
    """Client in-flight table: same scheme as the server table."""
    cfg = "any(kani, verif_replay)"
    _common_inject(scratch, cfg)
    tsrc = os.path.join(scratch.repo, "tarpc", "src")
    shutil.copy(os.path.join(VERIF, "overlay", "tarpc_overlay_cift.rs"), os.path.join(tsrc, "client", "verif_overlay_cift.rs"))
    f = os.path.join(tsrc, "client", "in_flight_requests.rs")
    _swap(f, [("use fnv::FnvHashMap;", "#[cfg(not(%s))]\nuse fnv::FnvHashMap;\n#[cfg(%s)]\nuse crate::verif_env::FnvHashMap;" % (cfg, cfg)),
              ("    collections::hash_map,\n", ""),
              ("use tokio_util::time::delay_queue::{self, DelayQueue};",
               "#[cfg(not(%s))]\nuse tokio_util::time::delay_queue::{self, DelayQueue};\n#[cfg(%s)]\nuse crate::verif_env::delay_queue::{self, DelayQueue};\n"
               "#[cfg(not(%s))]\nuse std::collections::hash_map;\n#[cfg(%s)]\nuse crate::verif_env::hash_map;" % (cfg, cfg, cfg, cfg))])
    with open(f, "a") as fh:
        fh.write("\n#[cfg(%s)]\n#[path = \"verif_overlay_cift.rs\"]\nmod verif_overlay_cift;\n" % cfg)


def inject_memchan_overlay(scratch):
    """C15, in-memory transport: harness module at the crate root (public API only); under
    cfg(kani) ONLY, the tokio mpsc behind transport/channel.rs is the contract model
    verif_env::mpsc_closing (with sender/receiver-gone semantics); native replay = real tokio."""
    _common_inject(scratch, "any(kani, verif_replay)")
    tsrc = os.path.join(scratch.repo, "tarpc", "src")
    shutil.copy(os.path.join(VERIF, "overlay", "tarpc_overlay_memchan.rs"), os.path.join(tsrc, "verif_overlay_memchan.rs"))
    _swap(os.path.join(tsrc, "transport", "channel.rs"),
          [("use tokio::sync::mpsc;", "#[cfg(not(kani))]\nuse tokio::sync::mpsc;\n#[cfg(kani)]\nuse crate::verif_env::mpsc_closing as mpsc;")])
    with open(os.path.join(tsrc, "lib.rs"), "a") as fh:
        fh.write("\n#[cfg(any(kani, verif_replay))]\n#[path = \"verif_overlay_memchan.rs\"]\nmod verif_overlay_memchan;\n")


def inject_c13_overlay(scratch):
    """C13: harness module next to channels_per_key.rs (private constructor), environment models
    for tokio mpsc / FnvHashMap swapped in under cfg(kani) ONLY (the native replay uses the real
    ones), logging compiled out in the scratch copy's Cargo.toml."""
    tsrc = os.path.join(scratch.repo, "tarpc", "src")
    shutil.copy(os.path.join(VERIF, "overlay", "tarpc_overlay_c13.rs"), os.path.join(tsrc, "server", "limits", "verif_overlay_c13.rs"))
    shutil.copy(os.path.join(VERIF, "overlay", "verif_env.rs"), os.path.join(tsrc, "verif_env.rs"))
    shutil.copy(os.path.join(VERIF, "harness", "common", "nd.rs"), os.path.join(tsrc, "verif_nd.rs"))
    f = os.path.join(tsrc, "server", "limits", "channels_per_key.rs")
    c = open(f).read()
    rep = [("use fnv::FnvHashMap;", "#[cfg(not(kani))]\nuse fnv::FnvHashMap;\n#[cfg(kani)]\nuse crate::verif_env::FnvHashMap;"),
           ("use tokio::sync::mpsc;", "#[cfg(not(kani))]\nuse tokio::sync::mpsc;\n#[cfg(kani)]\nuse crate::verif_env::mpsc;"),
           ("    collections::hash_map::Entry, convert::TryFrom,", "    convert::TryFrom,")]
    for a, b in rep:
        if a not in c:
            raise Inconclusive("channels_per_key.rs: import %r not found, cannot swap the environment models in" % a)
        c = c.replace(a, b, 1)
    c = c.replace("use tracing::{debug, info, trace};", "use tracing::{debug, info, trace};\n#[cfg(not(kani))]\nuse std::collections::hash_map::Entry;\n#[cfg(kani)]\nuse crate::verif_env::Entry;", 1)
    open(f, "w").write(c)
    with open(os.path.join(tsrc, "server", "limits.rs"), "a") as fh:
        fh.write("\n#[cfg(any(kani, verif_replay))]\n#[path = \"limits/verif_overlay_c13.rs\"]\nmod verif_overlay_c13;\n")
    lib = os.path.join(tsrc, "lib.rs")
    with open(lib, "a") as fh:
        if "pub mod nd;" not in open(lib).read():
            fh.write("\n#[cfg(any(kani, verif_replay))]\n#[allow(missing_docs, dead_code, unused_imports, unused_macros)]\n#[path = \"verif_nd.rs\"]\npub mod nd;\n")
        fh.write("\n#[cfg(kani)]\n#[path = \"verif_env.rs\"]\npub(crate) mod verif_env;\n")
    cargo = os.path.join(scratch.repo, "tarpc", "Cargo.toml")
    cc = open(cargo).read()
    c2 = re.sub(r'(tracing = \{ version = "0\.1", default-features = false, features = \[)', r'\1\n    "max_level_off",', cc, count=1)
    if c2 == cc:
        raise Inconclusive("could not add max_level_off to tarpc's tracing dependency in the scratch copy")
    c2 = c2.replace("[dependencies]\n", "[dependencies]\nlog = { version = \"0.4\", features = [\"max_level_off\"] }\n", 1)
    open(cargo, "w").write(c2)


def inject_overlay(scratch):
    """Appends the overlay modules to the scratch copy of tarpc (never to /repo)."""
    tsrc = os.path.join(scratch.repo, "tarpc", "src")
    cl, ca = extract_timer_arming(open(os.path.join(tsrc, "client", "in_flight_requests.rs")).read(), "insert_request")
    sl, sa = extract_timer_arming(open(os.path.join(tsrc, "server", "in_flight_requests.rs")).read(), "start_request")
    cspan = extract_span_deadline(open(os.path.join(tsrc, "client.rs")).read(), r"pub\s+async\s+fn\s+call\b")
    sspan = extract_span_deadline(open(os.path.join(tsrc, "server.rs")).read(), r"fn\s+start_request\b")
    wheel, tver = wheel_max_duration_ms()
    ov = open(os.path.join(VERIF, "overlay", "tarpc_overlay.rs")).read()
    rep = {"@CLIENT_LETS@": "\n    ".join(cl), "@CLIENT_ARG@": ca, "@SERVER_LETS@": "\n    ".join(sl), "@SERVER_ARG@": sa,
           "@CLIENT_SPAN_EXPR@": cspan, "@SERVER_SPAN_EXPR@": sspan, "@WHEEL_MAX_DURATION_MS@": str(wheel)}
    for k, v in rep.items():
        ov = ov.replace(k, v)
    open(os.path.join(tsrc, "verif_overlay.rs"), "w").write(ov)
    shutil.copy(os.path.join(VERIF, "harness", "common", "nd.rs"), os.path.join(tsrc, "verif_nd.rs"))
    lib = os.path.join(tsrc, "lib.rs")
    have_nd = "pub mod nd;" in open(lib).read()
    with open(lib, "a") as f:
        if not have_nd:
            f.write("\n#[cfg(any(kani, verif_replay))]\n#[allow(missing_docs, dead_code, unused_imports, unused_macros)]\n#[path = \"verif_nd.rs\"]\npub mod nd;\n")
        f.write("#[cfg(any(kani, verif_replay))]\n#[path = \"verif_overlay.rs\"]\nmod verif_overlay;\n")
    return {"client_lets": cl, "client_arg": ca, "server_lets": sl, "server_arg": sa, "client_span_expr": cspan,
            "server_span_expr": sspan, "wheel_max_duration_ms": wheel, "tokio_util_version": tver}


def replay_test(scratch, test, env_extra, names=None, timeout_s=1200, release=False):
    """Runs an integration test of /verif/replay (real codecs / real endpoints under tokio) against
    the scratch copy.  Returns (passed: bool, output tail)."""
    env = dict(ENV)
    env.update(env_extra)
    env["CARGO_TARGET_DIR"] = os.path.join(scratch.target, "replay-native")
    cmd = ["cargo", "test", "--offline", "--no-fail-fast", "--test", test] + (["--release"] if release else []) + ["--"] + (names or []) + ["--nocapture", "--test-threads", "1"]
    rc, out, _ = run(cmd, cwd=os.path.join(scratch.root, "replay"), env=env, timeout=timeout_s)
    keep = [l for l in out.splitlines() if re.search(r"^test |panicked at|MISMATCH|SERVER|CLIENT|DECODE|LIMIT=|refused|test result|error(\[|:)", l)]
    return rc == 0, "\n".join(keep[-25:])
