//! C17 — the code `#[tarpc::service]` generates (plugins/src/lib.rs), expanded by the real proc
//! macro at every run, is wired client -> request enum -> Serve::serve -> implementor -> response
//! enum -> client through a harness `Stub` that hands the request straight to the generated
//! `Serve` impl.  Method choice, all arguments and the context deadline are symbolic; every
//! implementor method records (tag, args, deadline seen) and returns a non-commutative,
//! method-specific function of its arguments.
#![allow(static_mut_refs, non_snake_case, clippy::all)]
#[path = "../../common/nd.rs"]
pub mod nd;
#[path = "../../wire/src/wire.rs"]
#[allow(dead_code)]
pub mod wire;
use nd::*;

use std::task::Poll;
use tarpc::client::stub::Stub;
use tarpc::client::RpcError;
use tarpc::context::Context;
use tarpc::server::Serve;
use tarpc::RequestName;

fn ctx(d: i64) -> Context {
    let mut c: Context = unsafe { std::mem::zeroed() };
    c.deadline = mk_instant(d, 0);
    c
}
fn dl(c: &Context) -> i64 { instant_parts(c.deadline).0 }

/// What the implementor saw: (method tag, a, b, c, deadline, number of invocations).
static mut SEEN: (u8, i64, i64, i64, i64) = (0, 0, 0, 0, 0);
static mut CALLS: u32 = 0;
fn seen(tag: u8, a: i64, b: i64, c: i64, ctx: &Context) {
    unsafe { SEEN = (tag, a, b, c, dl(ctx)); CALLS += 1; }
}
fn check_seen(tag: u8, a: i64, b: i64, c: i64, d: i64) {
    let s = unsafe { SEEN };
    assert!(unsafe { CALLS } == 1);
    assert!(s.0 == tag);
    assert!(s.1 == a);
    assert!(s.2 == b);
    assert!(s.3 == c);
    assert!(s.4 == d);
}

/// A stub that hands the request straight to the generated server glue.
struct Direct<S>(S);
impl<S: Serve + Clone> Stub for Direct<S> where S::Req: RequestName {
    type Req = S::Req;
    type Resp = S::Resp;
    async fn call(&self, c: Context, r: S::Req) -> Result<S::Resp, RpcError> {
        self.0.clone().serve(c, r).await.map_err(RpcError::Server)
    }
}
/// Polls a client-method future once; Ok(v) expected.  The result is forgotten, not dropped.
fn ready<T: Copy, F: std::future::Future<Output = Result<T, RpcError>>>(f: F) -> T {
    let mut f = Box::pin(f);
    let r = poll_once(f.as_mut());
    let v = match &r { Poll::Ready(Ok(v)) => Some(*v), _ => None };
    std::mem::forget(r);
    std::mem::forget(f);
    match v { Some(v) => v, None => { assert!(false); unreachable!() } }
}
fn name_is(got: &str, want: &str) -> bool {
    let (g, w) = (got.as_bytes(), want.as_bytes());
    if g.len() != w.len() { return false; }
    let mut i = 0;
    while i < g.len() { if g[i] != w[i] { return false; } i += 1; }
    true
}

// ------------------------------------------------------------------ family member 1
pub mod calc {
    use super::*;
    /// same-typed siblings whose names are anagrams, a raw identifier, a unit return, no args
    #[tarpc::service]
    pub trait Calc {
        async fn sub(a: i32, b: i32) -> i32;
        async fn bus(a: i32, b: i32) -> i32;
        async fn r#fn(x: u8);
        async fn zero() -> u64;
    }
    #[derive(Clone)]
    pub struct Impl;
    impl Calc for Impl {
        async fn sub(self, c: Context, a: i32, b: i32) -> i32 { seen(1, a as i64, b as i64, 0, &c); a.wrapping_sub(b) }
        async fn bus(self, c: Context, a: i32, b: i32) -> i32 { seen(2, a as i64, b as i64, 0, &c); b.wrapping_sub(a).wrapping_mul(3) }
        async fn r#fn(self, c: Context, x: u8) { seen(3, x as i64, 0, 0, &c); }
        async fn zero(self, c: Context) -> u64 { seen(4, 0, 0, 0, &c); 0xC0FFEE }
    }
}

// ------------------------------------------------------------------ family member 2
pub mod mixed {
    use super::*;
    /// three arguments: permuted types between siblings, and three equal types
    #[tarpc::service]
    pub trait Mixed {
        async fn f(a: u8, b: u32, c: i64) -> i64;
        async fn g(a: u32, b: u8, c: i64) -> i64;
        async fn h(a: u16, b: u16, c: u16) -> u64;
        async fn unit_explicit(a: u16) -> ();
    }
    #[derive(Clone)]
    pub struct Impl;
    impl Mixed for Impl {
        async fn f(self, x: Context, a: u8, b: u32, c: i64) -> i64 { seen(1, a as i64, b as i64, c, &x); (a as i64) + 2 * (b as i64) - (c >> 3) }
        async fn g(self, x: Context, a: u32, b: u8, c: i64) -> i64 { seen(2, a as i64, b as i64, c, &x); 5 * (a as i64) - (b as i64) + (c >> 2) }
        async fn h(self, x: Context, a: u16, b: u16, c: u16) -> u64 { seen(3, a as i64, b as i64, c as i64, &x); ((a as u64) << 32) | ((b as u64) << 16) | c as u64 }
        async fn unit_explicit(self, x: Context, a: u16) -> () { seen(4, a as i64, 0, 0, &x); }
    }
}

// ------------------------------------------------------------------ family member 3
pub mod names {
    use super::*;
    /// leading / trailing / double underscores, mixed case, camel case in method names
    #[tarpc::service]
    pub trait Names {
        async fn _lead(x: u32) -> u32;
        async fn trail_(x: u32) -> u32;
        async fn dou__ble(x: u32) -> u32;
        async fn mixedCase(x: u32) -> u32;
        async fn Shout(x: u32) -> u32;
        async fn a(x: u32) -> u32;
    }
    #[derive(Clone)]
    pub struct Impl;
    impl Names for Impl {
        async fn _lead(self, c: Context, x: u32) -> u32 { seen(1, x as i64, 0, 0, &c); x ^ 0x1111 }
        async fn trail_(self, c: Context, x: u32) -> u32 { seen(2, x as i64, 0, 0, &c); x ^ 0x2222 }
        async fn dou__ble(self, c: Context, x: u32) -> u32 { seen(3, x as i64, 0, 0, &c); x ^ 0x3333 }
        async fn mixedCase(self, c: Context, x: u32) -> u32 { seen(4, x as i64, 0, 0, &c); x ^ 0x4444 }
        async fn Shout(self, c: Context, x: u32) -> u32 { seen(5, x as i64, 0, 0, &c); x ^ 0x5555 }
        async fn a(self, c: Context, x: u32) -> u32 { seen(6, x as i64, 0, 0, &c); x ^ 0x6666 }
    }
}

// ------------------------------------------------------------------ family member 4
pub mod attrs {
    use super::*;
    /// doc / allow / cfg attributes on methods (a cfg'd-out method sits between live ones),
    /// explicit derives without serde
    #[tarpc::service(derive = [Clone, PartialEq])]
    pub trait Attrs {
        /// documented
        async fn first(a: i16, b: i16) -> i32;
        #[cfg(any())]
        async fn gone(a: i16, b: i16) -> i32;
        #[cfg(all())]
        #[allow(unused)]
        async fn second(a: i16, b: i16) -> i32;
        #[doc = "attr"]
        async fn third(a: i16, b: i16) -> i32;
    }
    #[derive(Clone)]
    pub struct Impl;
    impl Attrs for Impl {
        async fn first(self, c: Context, a: i16, b: i16) -> i32 { seen(1, a as i64, b as i64, 0, &c); (a as i32) * 2 - b as i32 }
        async fn second(self, c: Context, a: i16, b: i16) -> i32 { seen(2, a as i64, b as i64, 0, &c); (a as i32) * 3 - b as i32 }
        async fn third(self, c: Context, a: i16, b: i16) -> i32 { seen(3, a as i64, b as i64, 0, &c); (a as i32) * 5 - b as i32 }
    }
}

// ------------------------------------------------------------------ family member 5
pub mod noserde {
    use super::*;
    /// `derive_serde = false`, private visibility, a raw service-side identifier as argument name
    #[allow(deprecated)]
    #[tarpc::service(derive_serde = false)]
    trait Plain {
        async fn pair(r#type: u64, r#match: u64) -> u64;
        async fn only();
    }
    #[derive(Clone)]
    struct Impl;
    impl Plain for Impl {
        async fn pair(self, c: Context, r#type: u64, r#match: u64) -> u64 { seen(1, r#type as i64, r#match as i64, 0, &c); r#type.wrapping_mul(7).wrapping_sub(r#match) }
        async fn only(self, c: Context) { seen(2, 0, 0, 0, &c); }
    }
    pub fn run() {
        let client = PlainClient::from(Direct(Impl.serve()));
        let d = any_u16() as i64;
        let (a, b) = (any_u64(), any_u64());
        if any_bool() {
            let v = ready(client.pair(ctx(d), a, b));
            check_seen(1, a as i64, b as i64, 0, d);
            assert!(v == a.wrapping_mul(7).wrapping_sub(b));
            witness!(a != b, "distinct same-typed arguments");
        } else {
            ready(client.only(ctx(d)));
            check_seen(2, 0, 0, 0, d);
            witness!(true, "zero-argument unit method");
        }
        assert!(name_is(PlainRequest::Pair { r#type: a, r#match: b }.name(), "Plain.pair"));
        assert!(name_is(PlainRequest::Only {}.name(), "Plain.only"));
        std::mem::forget(client);
    }
}

// ------------------------------------------------------------------ family member 6
pub mod rnames {
    use super::*;
    /// method names that begin like the raw-identifier prefix, single letters, trailing digits
    #[tarpc::service]
    pub trait Registry {
        async fn r(x: u32) -> u32;
        async fn read(x: u32) -> u32;
        async fn rr_lookup(x: u32) -> u32;
        async fn re_(x: u32) -> u32;
        async fn x2(x: u32) -> u32;
    }
    #[derive(Clone)]
    pub struct Impl;
    impl Registry for Impl {
        async fn r(self, c: Context, x: u32) -> u32 { seen(1, x as i64, 0, 0, &c); x.wrapping_add(1) }
        async fn read(self, c: Context, x: u32) -> u32 { seen(2, x as i64, 0, 0, &c); x.wrapping_add(2) }
        async fn rr_lookup(self, c: Context, x: u32) -> u32 { seen(3, x as i64, 0, 0, &c); x.wrapping_add(3) }
        async fn re_(self, c: Context, x: u32) -> u32 { seen(4, x as i64, 0, 0, &c); x.wrapping_add(4) }
        async fn x2(self, c: Context, x: u32) -> u32 { seen(5, x as i64, 0, 0, &c); x.wrapping_add(5) }
    }
}

/// An RPC argument named like the glue's own context variable.  The definition is either
/// rejected at compile time (today: E0415 in the generated client method) or, if a version of the
/// macro accepts it, it must not be miscompiled: the implementor's `context` is the REQUEST's
/// context and the argument arrives as the argument.
#[cfg(feature = "arg_ctx")]
pub mod argctx {
    use super::*;
    #[tarpc::service]
    pub trait Relay {
        async fn relay(ctx: Context, payload: u32) -> u32;
    }
    #[derive(Clone)]
    pub struct Impl;
    pub static mut ARG_DL: i64 = 0;
    impl Relay for Impl {
        async fn relay(self, context: Context, ctx: Context, payload: u32) -> u32 {
            seen(1, payload as i64, 0, 0, &context);
            unsafe { ARG_DL = dl(&ctx); }
            payload ^ 0xABCD
        }
    }
    pub fn run() {
        let client = RelayClient::from(Direct(Impl.serve()));
        let (d_req, d_arg) = (any_u16() as i64, any_u16() as i64);
        let x = any_u32();
        let v = ready(client.relay(ctx(d_req), ctx(d_arg), x));
        check_seen(1, x as i64, 0, 0, d_req);
        assert!(unsafe { ARG_DL } == d_arg);
        assert!(v == x ^ 0xABCD);
        witness!(d_req != d_arg, "request context and context-typed argument differ");
        witness!(d_req == d_arg, "both equal");
        std::mem::forget(client);
    }
}

// ------------------------------------------------------------------ family member 7
pub mod shop {
    use super::*;
    use super::wire::{from_wire, to_wire, Mode, Wire};
    /// sibling methods whose names differ only in underscore placement (variants CheckOut /
    /// Checkout), sent through a SERIALISING stub: the generated request/response enums cross the
    /// wire model in a positional (bincode-like) and in a name-tagged (JSON-like) convention.
    #[tarpc::service]
    pub trait Shop {
        async fn check_out(a: u32, b: u32) -> u32;
        async fn checkout(a: u32, b: u32) -> u32;
    }
    #[derive(Clone)]
    pub struct Impl;
    impl Shop for Impl {
        async fn check_out(self, c: Context, a: u32, b: u32) -> u32 { seen(1, a as i64, b as i64, 0, &c); a.wrapping_mul(3).wrapping_sub(b) }
        async fn checkout(self, c: Context, a: u32, b: u32) -> u32 { seen(2, a as i64, b as i64, 0, &c); b.wrapping_mul(5).wrapping_sub(a) }
    }
    /// The generated request and response enums survive a trip through the wire model: the same
    /// variant with the same fields comes back (a tag shared by two variants would not).
    pub fn run(mode: Mode) {
        let (a, b) = (any_u32(), any_u32());
        let which = any_bool();
        let req = if which { ShopRequest::CheckOut { a, b } } else { ShopRequest::Checkout { a, b } };
        let mut w = Wire::new(mode);
        w.dynamic_names = true;
        assert!(to_wire(&mut w, &req).is_ok());
        let back: Result<ShopRequest, _> = from_wire(&mut w);
        let ok = match (&back, which) {
            (Ok(ShopRequest::CheckOut { a: x, b: y }), true) => *x == a && *y == b,
            (Ok(ShopRequest::Checkout { a: x, b: y }), false) => *x == a && *y == b,
            _ => false,
        };
        assert!(ok);
        assert!(w.exhausted());
        let resp = if which { ShopResponse::CheckOut(a) } else { ShopResponse::Checkout(b) };
        let mut w = Wire::new(mode);
        w.dynamic_names = true;
        assert!(to_wire(&mut w, &resp).is_ok());
        let back: Result<ShopResponse, _> = from_wire(&mut w);
        let ok = match (&back, which) {
            (Ok(ShopResponse::CheckOut(v)), true) => *v == a,
            (Ok(ShopResponse::Checkout(v)), false) => *v == b,
            _ => false,
        };
        assert!(ok);
        witness!(which, "check_out");
        witness!(!which, "checkout");
    }
}

#[cfg(feature = "neg_new")]
pub mod neg_new {
    #[tarpc::service]
    pub trait Bad { async fn new(); }
}
#[cfg(feature = "neg_serve")]
pub mod neg_serve {
    #[tarpc::service]
    pub trait Bad { async fn serve(); }
}

harnesses! {
    fn glue_calc() [unwind 12] {
        use calc::*;
        let client = CalcClient::from(Direct(Impl.serve()));
        let d = any_u16() as i64;
        let (a, b) = (any_i32(), any_i32());
        let which = any_u8();
        assume(which < 4);
        match which {
            0 => { let v = ready(client.sub(ctx(d), a, b)); check_seen(1, a as i64, b as i64, 0, d); assert!(v == a.wrapping_sub(b)); witness!(a != b, "sub with distinct arguments"); }
            1 => { let v = ready(client.bus(ctx(d), a, b)); check_seen(2, a as i64, b as i64, 0, d); assert!(v == b.wrapping_sub(a).wrapping_mul(3)); witness!(a != b, "bus with distinct arguments"); }
            2 => { ready(client.r#fn(ctx(d), a as u8)); check_seen(3, (a as u8) as i64, 0, 0, d); }
            _ => { let v = ready(client.zero(ctx(d))); check_seen(4, 0, 0, 0, d); assert!(v == 0xC0FFEE); }
        }
        assert!(name_is(CalcRequest::Sub { a, b }.name(), "Calc.sub"));
        assert!(name_is(CalcRequest::Bus { a, b }.name(), "Calc.bus"));
        assert!(name_is(CalcRequest::Zero {}.name(), "Calc.zero"));
        // the raw identifier is reported either verbatim or unraw'd; both read as "<Service>.<method>"
        let n = CalcRequest::Fn { x: 0 };
        assert!(name_is(n.name(), "Calc.r#fn") || name_is(n.name(), "Calc.fn"));
        std::mem::forget(client);
    }
    fn glue_mixed() [unwind 22] {
        use mixed::*;
        let client = MixedClient::from(Direct(Impl.serve()));
        let d = any_u16() as i64;
        let (a, b, c) = (any_u32(), any_u32(), any_i64());
        let which = any_u8();
        assume(which < 4);
        match which {
            0 => { let v = ready(client.f(ctx(d), a as u8, b, c)); check_seen(1, (a as u8) as i64, b as i64, c, d); assert!(v == ((a as u8) as i64) + 2 * (b as i64) - (c >> 3)); witness!(true, "f"); }
            1 => { let v = ready(client.g(ctx(d), a, b as u8, c)); check_seen(2, a as i64, (b as u8) as i64, c, d); assert!(v == 5 * (a as i64) - ((b as u8) as i64) + (c >> 2)); witness!(true, "g"); }
            2 => { let (x, y, z) = (a as u16, b as u16, c as u16); let v = ready(client.h(ctx(d), x, y, z)); check_seen(3, x as i64, y as i64, z as i64, d);
                   assert!(v == ((x as u64) << 32) | ((y as u64) << 16) | z as u64); witness!(x != y && y != z && x != z, "three distinct same-typed arguments"); }
            _ => { ready(client.unit_explicit(ctx(d), a as u16)); check_seen(4, (a as u16) as i64, 0, 0, d); }
        }
        assert!(name_is(MixedRequest::F { a: 0, b: 0, c: 0 }.name(), "Mixed.f"));
        assert!(name_is(MixedRequest::G { a: 0, b: 0, c: 0 }.name(), "Mixed.g"));
        assert!(name_is(MixedRequest::H { a: 0, b: 0, c: 0 }.name(), "Mixed.h"));
        assert!(name_is(MixedRequest::UnitExplicit { a: 0 }.name(), "Mixed.unit_explicit"));
        std::mem::forget(client);
    }
    fn glue_names() [unwind 18] {
        use names::*;
        let client = NamesClient::from(Direct(Impl.serve()));
        let d = any_u16() as i64;
        let x = any_u32();
        let which = any_u8();
        assume(which < 6);
        let (tag, v, k) = match which {
            0 => (1, ready(client._lead(ctx(d), x)), 0x1111),
            1 => (2, ready(client.trail_(ctx(d), x)), 0x2222),
            2 => (3, ready(client.dou__ble(ctx(d), x)), 0x3333),
            3 => (4, ready(client.mixedCase(ctx(d), x)), 0x4444),
            4 => (5, ready(client.Shout(ctx(d), x)), 0x5555),
            _ => (6, ready(client.a(ctx(d), x)), 0x6666),
        };
        check_seen(tag, x as i64, 0, 0, d);
        assert!(v == x ^ k);
        witness!(which == 2, "double underscore method");
        witness!(which == 5, "single letter method");
        assert!(name_is(NamesRequest::Lead { x }.name(), "Names._lead"));
        assert!(name_is(NamesRequest::Trail { x }.name(), "Names.trail_"));
        assert!(name_is(NamesRequest::DouBle { x }.name(), "Names.dou__ble"));
        assert!(name_is(NamesRequest::Mixedcase { x }.name(), "Names.mixedCase"));
        assert!(name_is(NamesRequest::Shout { x }.name(), "Names.Shout"));
        assert!(name_is(NamesRequest::A { x }.name(), "Names.a"));
        std::mem::forget(client);
    }
    fn glue_attrs() [unwind 14] {
        use attrs::*;
        let client = AttrsClient::from(Direct(Impl.serve()));
        let d = any_u16() as i64;
        let (a, b) = (any_u16() as i16, any_u16() as i16);
        let which = any_u8();
        assume(which < 3);
        let (tag, v, m) = match which {
            0 => (1, ready(client.first(ctx(d), a, b)), 2),
            1 => (2, ready(client.second(ctx(d), a, b)), 3),
            _ => (3, ready(client.third(ctx(d), a, b)), 5),
        };
        check_seen(tag, a as i64, b as i64, 0, d);
        assert!(v == (a as i32) * m - b as i32);
        witness!(which == 1 && a != b, "method after the cfg'd-out one");
        witness!(which == 2, "last method");
        assert!(name_is(AttrsRequest::First { a, b }.name(), "Attrs.first"));
        assert!(name_is(AttrsRequest::Second { a, b }.name(), "Attrs.second"));
        assert!(name_is(AttrsRequest::Third { a, b }.name(), "Attrs.third"));
        // explicit derives arrived on the request enum
        let r = AttrsRequest::First { a, b };
        assert!(r.clone() == r);
        std::mem::forget(client);
    }
    fn glue_noserde() [unwind 12] { noserde::run() }
    fn glue_rnames() [unwind 20] {
        use rnames::*;
        let client = RegistryClient::from(Direct(Impl.serve()));
        let d = any_u16() as i64;
        let x = any_u32();
        let which = any_u8();
        assume(which < 5);
        let (tag, v) = match which {
            0 => (1, ready(client.r(ctx(d), x))),
            1 => (2, ready(client.read(ctx(d), x))),
            2 => (3, ready(client.rr_lookup(ctx(d), x))),
            3 => (4, ready(client.re_(ctx(d), x))),
            _ => (5, ready(client.x2(ctx(d), x))),
        };
        check_seen(tag, x as i64, 0, 0, d);
        assert!(v == x.wrapping_add(tag as u32));
        witness!(which == 0, "single-letter method r");
        witness!(which == 2, "method rr_lookup");
        assert!(name_is(RegistryRequest::R { x }.name(), "Registry.r"));
        assert!(name_is(RegistryRequest::Read { x }.name(), "Registry.read"));
        assert!(name_is(RegistryRequest::RrLookup { x }.name(), "Registry.rr_lookup"));
        assert!(name_is(RegistryRequest::Re { x }.name(), "Registry.re_"));
        assert!(name_is(RegistryRequest::X2 { x }.name(), "Registry.x2"));
        std::mem::forget(client);
    }
    fn glue_serde_tags_varint() [unwind 20] { shop::run(wire::Mode::Varint) }
    fn glue_serde_tags_json() [unwind 20] { shop::run(wire::Mode::Json) }
    fn glue_ctx_arg() [unwind 12] {
        #[cfg(feature = "arg_ctx")]
        argctx::run();
        #[cfg(not(feature = "arg_ctx"))]
        { witness!(true, "feature off"); witness!(true, "feature off"); }
    }
}
