fn main() {
    #[cfg(not(kani))]
    vglue::nd::replay_main(vglue::HARNESSES);
}
