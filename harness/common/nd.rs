// Shared shim for every harness (external crates `mod nd;` it through #[path], the in-crate
// overlays `include!` it).  One harness body serves two builds:
//
//   * cfg(kani): `any_*()` are `kani::any()` (solver variables), the clock is the
//     `#[kani::stub(std::time::Instant::now, nd::stub_now)]` stub reading `NOW`.
//   * native (replay of a counterexample against the ordinary build of tarpc): `any_*()` pop the
//     concrete values the solver produced (env VERIF_REPLAY_VALUES, comma separated decimal,
//     in the order the harness asked for them) and the process-wide `clock_gettime` symbol is
//     interposed so that `std::time::Instant::now()` returns `NOW` exactly, as in the stub.
#![allow(dead_code, static_mut_refs, unused_macros, unused_imports)]

use std::future::Future;
use std::pin::Pin;
use std::task::{Context, Poll, Waker};
use std::time::Instant;

// ------------------------------------------------------------------ nondeterminism
#[cfg(not(kani))]
pub static mut VALUES: Vec<u128> = Vec::new();
#[cfg(not(kani))]
pub static mut NEXT: usize = 0;

#[cfg(not(kani))]
pub fn load_values() {
    // marker for the machinery: a panic only counts as a reproduction after this line was printed
    // (cargo exits with 101 for a build or usage error as well)
    println!("REPLAY-ENTERED");
    let s = std::env::var("VERIF_REPLAY_VALUES").unwrap_or_default();
    unsafe {
        VALUES = s
            .split(',')
            .filter(|x| !x.trim().is_empty())
            .map(|x| x.trim().parse::<u128>().expect("bad replay value"))
            .collect();
        NEXT = 0;
    }
}
#[cfg(not(kani))]
fn pop() -> u128 {
    unsafe {
        // A harness may ask for more values than the trace contains when the solver's run ended
        // (failed) earlier than the native one; zero is what Kani's playback uses as well.
        let v = VALUES.get(NEXT).copied().unwrap_or(0);
        NEXT += 1;
        v
    }
}

macro_rules! any_fn {
    ($($name:ident $t:ty),*) => { $(
        #[cfg(kani)] #[inline(never)] pub fn $name() -> $t { kani::any() }
        #[cfg(not(kani))] pub fn $name() -> $t { pop() as $t }
    )* }
}
any_fn!(any_u8 u8, any_u16 u16, any_u32 u32, any_u64 u64, any_u128 u128, any_usize usize,
        any_i32 i32, any_i64 i64);
#[cfg(kani)]
#[inline(never)]
pub fn any_bool() -> bool { kani::any() }
#[cfg(not(kani))]
pub fn any_bool() -> bool { pop() != 0 }

#[cfg(kani)]
pub fn assume(c: bool) { kani::assume(c) }
/// Natively a violated assumption means the replay values do not describe a run of this harness.
#[cfg(not(kani))]
pub fn assume(c: bool) {
    if !c {
        eprintln!("REPLAY-ASSUME-FAILED");
        std::process::exit(3);
    }
}

/// Vacuity witness: under Kani a cover property, natively a no-op.
macro_rules! witness {
    ($c:expr, $m:literal) => {{
        #[cfg(kani)]
        kani::cover!($c, $m);
        #[cfg(not(kani))]
        let _ = $c;
    }};
}
pub(crate) use witness;

// ------------------------------------------------------------------ clock
/// (seconds, nanoseconds) of CLOCK_MONOTONIC as seen by `Instant::now()`.
pub static mut NOW: (i64, u32) = (1_000, 0);
pub fn set_now(s: i64, n: u32) { unsafe { NOW = (s, n); } }
pub fn stub_now() -> Instant { unsafe { mk_instant(NOW.0, NOW.1) } }
/// (seconds, nanoseconds) since the Unix epoch as seen by `SystemTime::now()` (CLOCK_REALTIME).
pub static mut WALL: (i64, u32) = (1_790_000_000, 0);
pub fn set_wall(s: i64, n: u32) { unsafe { WALL = (s, n); } }
pub fn stub_wall_now() -> std::time::SystemTime {
    #[repr(C)]
    struct Ts { s: i64, n: u32 }
    unsafe { std::mem::transmute::<Ts, std::time::SystemTime>(Ts { s: WALL.0, n: WALL.1 }) }
}
/// Fabricates an `Instant`; layout {tv_sec: i64, tv_nsec: u32} checked natively by setup.
pub fn mk_instant(s: i64, n: u32) -> Instant {
    #[repr(C)]
    struct Ts { s: i64, n: u32 }
    unsafe { std::mem::transmute::<Ts, Instant>(Ts { s, n }) }
}
pub fn instant_parts(i: Instant) -> (i64, u32) {
    #[repr(C)]
    struct Ts { s: i64, n: u32 }
    let t = unsafe { std::mem::transmute::<Instant, Ts>(i) };
    (t.s, t.n)
}

/// Native builds: interpose libc's clock_gettime for the whole process so that std's
/// `Instant::now()` (CLOCK_MONOTONIC) returns `NOW`.  Other clocks go to the kernel.
#[cfg(all(not(kani), not(verif_no_interpose)))]
#[no_mangle]
pub unsafe extern "C" fn clock_gettime(clk: i32, ts: *mut [i64; 2]) -> i32 {
    extern "C" { fn syscall(n: i64, ...) -> i64; }
    if clk == 1 {
        (*ts)[0] = NOW.0;
        (*ts)[1] = NOW.1 as i64;
        0
    } else if clk == 0 {
        (*ts)[0] = WALL.0;
        (*ts)[1] = WALL.1 as i64;
        0
    } else {
        syscall(228, clk as i64, ts) as i32
    }
}

pub fn noop() {}
/// Logging environment gets empty bodies: entering / leaving / closing a tracing span.
#[cfg(kani)]
pub fn noop_span(_: &tracing::Span) {}
#[cfg(kani)]
pub fn noop_span_drop(_: &mut tracing::Span) {}
pub fn stub_format(_: std::fmt::Arguments<'_>) -> String { String::new() }

// ------------------------------------------------------------------ futures
/// One poll with the no-op waker.  `Waker::noop()` is a &'static Waker: nothing is cloned or
/// dropped, so CBMC never has to resolve the waker vtable's raw function pointers (it resolves
/// such calls by signature, which drags thread-local destructors of tracing's dispatcher in).
pub fn poll_once<F: Future>(f: Pin<&mut F>) -> Poll<F::Output> {
    let mut cx = Context::from_waker(Waker::noop());
    f.poll(&mut cx)
}

/// Declares harnesses once for both builds and a name → fn table for the native replayer.
macro_rules! harnesses {
    ($( $(#[$m:meta])* fn $name:ident() [unwind $u:literal] $body:block )*) => {
        $(
            $(#[$m])*
            #[cfg_attr(kani, kani::proof)]
            #[cfg_attr(kani, kani::unwind($u))]
            #[cfg_attr(kani, kani::stub(std::rt::thread_cleanup, crate::nd::noop))]
            #[cfg_attr(kani, kani::stub(std::time::Instant::now, crate::nd::stub_now))]
            #[cfg_attr(kani, kani::stub(std::time::SystemTime::now, crate::nd::stub_wall_now))]
            #[cfg_attr(kani, kani::stub(alloc::fmt::format, crate::nd::stub_format))]
            pub fn $name() $body
        )*
        pub const HARNESSES: &[(&str, fn())] = &[ $( (stringify!($name), $name as fn()) ),* ];
    };
}
pub(crate) use harnesses;

/// Native entry: `<bin> <harness>` with VERIF_REPLAY_VALUES set; a panic (exit 101) = reproduced.
#[cfg(not(kani))]
pub fn replay_main(table: &[(&str, fn())]) {
    let name = std::env::args().nth(1).expect("usage: replay <harness>");
    load_values();
    for (n, f) in table {
        if *n == name {
            f();
            println!("REPLAY-PASSED {}", name);
            return;
        }
    }
    eprintln!("unknown harness {}", name);
    std::process::exit(4);
}
