//! C19 — request hooks (tarpc/src/server/request_hook/{before,after,before_and_after}.rs and
//! request_hook.rs).  Real code under check: `before()`, `BeforeRequestNil/Cons::{then, then_fn,
//! serving, before}`, `HookThenServe::serve`, `ServeThenHook::serve`,
//! `HookThenServeThenHook::serve`, the blanket closure impls of BeforeRequest / AfterRequest and
//! `RequestHook::{before, after, before_and_after}`.
//! Each hook has a symbolic fail bit, writes a symbolic deadline into the context, after-hooks
//! apply a symbolic rewrite to the result; hooks and handler log (tag, context they saw, value
//! they saw).  A straight-line reference model in each harness predicts log and result.
#![allow(static_mut_refs, clippy::all)]
#[path = "../../common/nd.rs"]
pub mod nd;
use nd::*;

use std::io::ErrorKind;
use std::task::Poll;
use tarpc::context::Context;
use tarpc::server::request_hook::{self, AfterRequest, BeforeRequest, BeforeRequestList, RequestHook};
use tarpc::server::{serve, Serve};
use tarpc::ServerError;

fn ctx(d: i64) -> Context {
    let mut c: Context = unsafe { std::mem::zeroed() };
    c.deadline = mk_instant(d, 0);
    c
}
fn dl(c: &Context) -> i64 { instant_parts(c.deadline).0 }

// ----------------------------------------------------------------------------- log
const LOGN: usize = 12;
static mut LOG: [(u8, i64, i64); LOGN] = [(0, 0, 0); LOGN];
static mut LEN: usize = 0;
fn log(tag: u8, seen_dl: i64, seen: i64) {
    unsafe {
        assert!(LEN < LOGN);
        LOG[LEN] = (tag, seen_dl, seen);
        LEN += 1;
    }
}
/// The reference model's log.
struct Exp { log: [(u8, i64, i64); LOGN], len: usize }
impl Exp {
    fn new() -> Self { Exp { log: [(0, 0, 0); LOGN], len: 0 } }
    fn push(&mut self, tag: u8, seen_dl: i64, seen: i64) { self.log[self.len] = (tag, seen_dl, seen); self.len += 1; }
    fn check(&self) {
        assert!(unsafe { LEN } == self.len);
        let mut i = 0;
        while i < self.len {
            let (a, b) = (unsafe { LOG[i] }, self.log[i]);
            assert!(a.0 == b.0);
            assert!(a.1 == b.1);
            assert!(a.2 == b.2);
            i += 1;
        }
    }
}

// ----------------------------------------------------------------------------- results
const KINDS: [ErrorKind; 6] = [ErrorKind::NotFound, ErrorKind::PermissionDenied, ErrorKind::TimedOut,
    ErrorKind::InvalidData, ErrorKind::BrokenPipe, ErrorKind::AddrInUse];
fn err(code: usize) -> ServerError { ServerError::new(KINDS[code], String::new()) }
/// Encodes a result as one integer: Ok(v) -> v (u32), Err(kind code c) -> -(c+1); unknown -> -100.
fn enc(r: &Result<u32, ServerError>) -> i64 {
    match r {
        Ok(v) => *v as i64,
        Err(e) => {
            let mut i = 0;
            while i < KINDS.len() { if KINDS[i] == e.kind { return -(i as i64 + 1); } i += 1; }
            -100
        }
    }
}

// ----------------------------------------------------------------------------- symbolic knobs
const NH: usize = 4;
static mut FAIL: [bool; NH] = [false; NH];
static mut NEWDL: [i64; NH] = [0; NH];
/// after-hook rewrite: 0 leave, 1 -> Ok(RW_VAL), 2 -> Err(kind 4)
static mut RW: [u8; NH] = [0; NH];
static mut RW_VAL: [u32; NH] = [0; NH];
static mut AFTER_DL: [i64; NH] = [0; NH];
static mut H_OK: bool = true;
static mut H_VAL: u32 = 0;
static mut REQ: u32 = 0;
static mut D0: i64 = 0;

fn knobs() {
    let mut i = 0;
    while i < NH {
        unsafe {
            FAIL[i] = any_bool();
            NEWDL[i] = any_u16() as i64;
            RW[i] = any_u8();
            RW_VAL[i] = any_u32();
            AFTER_DL[i] = any_u16() as i64;
        }
        assume(unsafe { RW[i] } <= 2);
        i += 1;
    }
    unsafe { H_OK = any_bool(); H_VAL = any_u32(); REQ = any_u32(); D0 = any_u16() as i64; }
}
fn handler_result() -> i64 { if unsafe { H_OK } { unsafe { H_VAL as i64 } } else { -(5 + 1) } }
fn rewrite(i: usize, r: i64) -> i64 {
    match unsafe { RW[i] } { 0 => r, 1 => unsafe { RW_VAL[i] as i64 }, _ => -(4 + 1) }
}

const T_BEFORE: u8 = 10;
const T_AFTER: u8 = 20;
const T_HANDLER: u8 = 30;

/// Hook i (struct form): usable as before-hook, after-hook and combined hook.
#[derive(Clone)]
struct H(usize);
impl BeforeRequest<u32> for H {
    async fn before(&mut self, c: &mut Context, req: &u32) -> Result<(), ServerError> {
        log(T_BEFORE + self.0 as u8, dl(c), *req as i64);
        c.deadline = mk_instant(unsafe { NEWDL[self.0] }, 0);
        if unsafe { FAIL[self.0] } { Err(err(self.0)) } else { Ok(()) }
    }
}
impl AfterRequest<u32> for H {
    async fn after(&mut self, c: &mut Context, resp: &mut Result<u32, ServerError>) {
        log(T_AFTER + self.0 as u8, dl(c), enc(resp));
        c.deadline = mk_instant(unsafe { AFTER_DL[self.0] }, 0);
        match unsafe { RW[self.0] } {
            0 => {}
            1 => { set(resp, Ok(unsafe { RW_VAL[self.0] })); }
            _ => { set(resp, Err(err(4))); }
        }
    }
}
/// Overwrites the result without running the old value's drop glue (details are empty strings).
fn set(resp: &mut Result<u32, ServerError>, new: Result<u32, ServerError>) {
    std::mem::forget(std::mem::replace(resp, new));
}
async fn handle(c: Context, req: u32) -> Result<u32, ServerError> {
    log(T_HANDLER, dl(&c), req as i64);
    if unsafe { H_OK } { Ok(unsafe { H_VAL }) } else { Err(err(5)) }
}
fn run<S: Serve<Req = u32, Resp = u32>>(s: S) -> i64 {
    let mut f = Box::pin(s.serve(ctx(unsafe { D0 }), unsafe { REQ }));
    match poll_once(f.as_mut()) {
        Poll::Ready(r) => { let e = enc(&r); std::mem::forget(r); e }
        Poll::Pending => { assert!(false); 0 }
    }
}

/// Reference model of a before-chain [h0, h1, ...] followed by `inner`: returns Some(error
/// encoding) if a hook failed, else None and the context deadline the next stage must see.
fn model_chain(e: &mut Exp, hooks: &[usize], d: &mut i64) -> Option<i64> {
    let mut i = 0;
    while i < hooks.len() {
        let h = hooks[i];
        e.push(T_BEFORE + h as u8, *d, unsafe { REQ } as i64);
        *d = unsafe { NEWDL[h] };
        if unsafe { FAIL[h] } { return Some(-(h as i64 + 1)); }
        i += 1;
    }
    None
}
fn model_handler(e: &mut Exp, d: i64) -> i64 {
    e.push(T_HANDLER, d, unsafe { REQ } as i64);
    handler_result()
}

harnesses! {
    /// before() with no hooks: handler runs with the caller's context.
    fn chain_len0() [unwind 8] {
        knobs();
        let got = run(request_hook::before().serving(serve(handle)));
        let mut e = Exp::new();
        let want = model_handler(&mut e, unsafe { D0 });
        e.check();
        assert!(got == want);
        witness!(got < 0, "handler error returned");
        witness!(got >= 0, "handler value returned");
    }
    fn chain_len1() [unwind 8] {
        knobs();
        let got = run(request_hook::before().then(H(0)).serving(serve(handle)));
        let mut e = Exp::new(); let mut d = unsafe { D0 };
        let want = match model_chain(&mut e, &[0], &mut d) { Some(x) => x, None => model_handler(&mut e, d) };
        e.check();
        assert!(got == want);
        witness!(unsafe { FAIL[0] }, "the only hook fails");
        witness!(!unsafe { FAIL[0] } && got >= 0, "hook passes, handler value returned");
    }
    fn chain_len2() [unwind 8] {
        knobs();
        let got = run(request_hook::before().then(H(0)).then(H(1)).serving(serve(handle)));
        let mut e = Exp::new(); let mut d = unsafe { D0 };
        let want = match model_chain(&mut e, &[0, 1], &mut d) { Some(x) => x, None => model_handler(&mut e, d) };
        e.check();
        assert!(got == want);
        witness!(!unsafe { FAIL[0] } && unsafe { FAIL[1] }, "second hook fails");
        witness!(unsafe { FAIL[0] }, "first hook fails");
    }
    /// Three hooks, mixing struct hooks and closures (`then_fn`), every failing position.
    fn chain_len3_mixed() [unwind 8] {
        knobs();
        let s = request_hook::before()
            .then(H(0))
            .then_fn(|c: &mut Context, req: &u32| {
                log(T_BEFORE + 1, dl(c), *req as i64);
                c.deadline = mk_instant(unsafe { NEWDL[1] }, 0);
                let r = if unsafe { FAIL[1] } { Err(err(1)) } else { Ok(()) };
                async move { r }
            })
            .then(H(2))
            .serving(serve(handle));
        let got = run(s);
        let mut e = Exp::new(); let mut d = unsafe { D0 };
        let want = match model_chain(&mut e, &[0, 1, 2], &mut d) { Some(x) => x, None => model_handler(&mut e, d) };
        e.check();
        assert!(got == want);
        witness!(!unsafe { FAIL[0] } && !unsafe { FAIL[1] } && unsafe { FAIL[2] }, "third hook fails");
        witness!(!unsafe { FAIL[0] } && unsafe { FAIL[1] }, "middle hook fails");
        witness!(!unsafe { FAIL[0] } && !unsafe { FAIL[1] } && !unsafe { FAIL[2] }, "all three pass");
    }
    /// `.before()` applied twice: the outermost (last applied) hook runs first.
    fn nested_before_before() [unwind 8] {
        knobs();
        let got = run(serve(handle).before(H(1)).before(H(0)));
        let mut e = Exp::new(); let mut d = unsafe { D0 };
        let want = match model_chain(&mut e, &[0, 1], &mut d) { Some(x) => x, None => model_handler(&mut e, d) };
        e.check();
        assert!(got == want);
        witness!(!unsafe { FAIL[0] } && unsafe { FAIL[1] }, "inner before fails");
        witness!(!unsafe { FAIL[0] } && !unsafe { FAIL[1] }, "both pass");
    }
    /// after-hook alone: runs exactly once after the handler, sees its result (Ok or Err), and
    /// what it leaves is what serve returns.
    fn after_only() [unwind 8] {
        knobs();
        let got = run(serve(handle).after(H(0)));
        let mut e = Exp::new();
        let r = model_handler(&mut e, unsafe { D0 });
        e.push(T_AFTER + 0, unsafe { D0 }, r);
        e.check();
        assert!(got == rewrite(0, r));
        witness!(r < 0 && got >= 0, "after-hook turned an error into a value");
        witness!(r >= 0 && got < 0, "after-hook turned a value into an error");
        witness!(unsafe { RW[0] } == 0, "after-hook left the result alone");
    }
    /// Closure after-hook (blanket impl for FnMut).
    fn after_closure() [unwind 8] {
        knobs();
        let got = run(serve(handle).after(|c: &mut Context, resp: &mut Result<u32, ServerError>| {
            log(T_AFTER + 0, dl(c), enc(resp));
            if unsafe { RW[0] } == 1 { set(resp, Ok(unsafe { RW_VAL[0] })); }
            async {}
        }));
        let mut e = Exp::new();
        let r = model_handler(&mut e, unsafe { D0 });
        e.push(T_AFTER + 0, unsafe { D0 }, r);
        e.check();
        assert!(got == if unsafe { RW[0] } == 1 { unsafe { RW_VAL[0] as i64 } } else { r });
        witness!(r < 0 && got >= 0, "closure rewrote an error");
        witness!(unsafe { RW[0] } != 1, "closure left the result alone");
    }
    /// after(before(serve)): the after-hook sees an inner before-hook's error and can rewrite it;
    /// the handler does not run when the before-hook fails.
    fn after_wraps_before() [unwind 8] {
        knobs();
        let got = run(serve(handle).before(H(0)).after(H(1)));
        let mut e = Exp::new(); let mut d = unsafe { D0 };
        let r = match model_chain(&mut e, &[0], &mut d) { Some(x) => x, None => model_handler(&mut e, d) };
        e.push(T_AFTER + 1, unsafe { D0 }, r);
        e.check();
        assert!(got == rewrite(1, r));
        witness!(unsafe { FAIL[0] } && got >= 0, "before failed, after rewrote to a value");
        witness!(unsafe { FAIL[0] } && unsafe { RW[1] } == 0, "before's error is the response");
    }
    /// before(after(serve)): a failing outer before-hook means neither handler nor after-hook run.
    fn before_wraps_after() [unwind 8] {
        knobs();
        let got = run(serve(handle).after(H(1)).before(H(0)));
        let mut e = Exp::new(); let mut d = unsafe { D0 };
        let want = match model_chain(&mut e, &[0], &mut d) {
            Some(x) => x,
            None => { let r = model_handler(&mut e, d); e.push(T_AFTER + 1, d, r); rewrite(1, r) }
        };
        e.check();
        assert!(got == want);
        witness!(unsafe { FAIL[0] }, "outer before fails: nothing else runs");
        witness!(!unsafe { FAIL[0] } && unsafe { RW[1] } == 2, "after rewrites to an error");
    }
    /// after(after(serve)): the outer after-hook sees what the inner one left.
    fn after_wraps_after() [unwind 8] {
        knobs();
        let got = run(serve(handle).after(H(0)).after(H(1)));
        let mut e = Exp::new();
        let r = model_handler(&mut e, unsafe { D0 });
        e.push(T_AFTER + 0, unsafe { D0 }, r);
        let r1 = rewrite(0, r);
        e.push(T_AFTER + 1, unsafe { D0 }, r1);
        e.check();
        assert!(got == rewrite(1, r1));
        witness!(unsafe { RW[0] } == 1 && unsafe { RW[1] } == 0, "inner rewrite survives");
        witness!(unsafe { RW[0] } == 1 && unsafe { RW[1] } == 2, "outer rewrite wins");
    }
    /// Combined hook: after part skipped when before part fails; otherwise it sees the context
    /// its before part produced, and what it leaves is returned.
    fn combined_before_and_after() [unwind 8] {
        knobs();
        let got = run(serve(handle).before_and_after(H(0)));
        let mut e = Exp::new(); let mut d = unsafe { D0 };
        let want = match model_chain(&mut e, &[0], &mut d) {
            Some(x) => x,
            None => { let r = model_handler(&mut e, d); e.push(T_AFTER + 0, d, r); rewrite(0, r) }
        };
        e.check();
        assert!(got == want);
        witness!(unsafe { FAIL[0] }, "before part fails: after part skipped");
        witness!(!unsafe { FAIL[0] } && !unsafe { H_OK }, "handler error shown to after part");
        witness!(!unsafe { FAIL[0] } && unsafe { NEWDL[0] } != unsafe { D0 }, "before part changed the context");
    }
    /// before_and_after(before(serve)) and before(before_and_after(serve)) in one run each.
    fn combined_wraps_before() [unwind 8] {
        knobs();
        let got = run(serve(handle).before(H(1)).before_and_after(H(0)));
        let mut e = Exp::new(); let mut d = unsafe { D0 };
        let want = match model_chain(&mut e, &[0], &mut d) {
            Some(x) => x,
            None => {
                let d0 = d;
                let r = match model_chain(&mut e, &[1], &mut d) { Some(x) => x, None => model_handler(&mut e, d) };
                e.push(T_AFTER + 0, d0, r);
                rewrite(0, r)
            }
        };
        e.check();
        assert!(got == want);
        witness!(!unsafe { FAIL[0] } && unsafe { FAIL[1] }, "inner before fails, combined after still runs");
        witness!(unsafe { FAIL[0] }, "combined before fails");
    }
    // ---- thorough tier
    /// Four hooks: every failing position.
    fn chain_len4_deep() [unwind 9] {
        knobs();
        let got = run(request_hook::before().then(H(0)).then(H(1)).then(H(2)).then(H(3)).serving(serve(handle)));
        let mut e = Exp::new(); let mut d = unsafe { D0 };
        let want = match model_chain(&mut e, &[0, 1, 2, 3], &mut d) { Some(x) => x, None => model_handler(&mut e, d) };
        e.check();
        assert!(got == want);
        witness!(!unsafe { FAIL[0] } && !unsafe { FAIL[1] } && !unsafe { FAIL[2] } && unsafe { FAIL[3] }, "fourth hook fails");
        witness!(!unsafe { FAIL[0] } && !unsafe { FAIL[1] } && !unsafe { FAIL[2] } && !unsafe { FAIL[3] }, "all four pass");
    }
    /// after(before_and_after(serve)): the outer after-hook sees what the combined hook returned,
    /// including its before part's error.
    fn after_wraps_combined_deep() [unwind 8] {
        knobs();
        let got = run(serve(handle).before_and_after(H(0)).after(H(1)));
        let mut e = Exp::new(); let mut d = unsafe { D0 };
        let r = match model_chain(&mut e, &[0], &mut d) {
            Some(x) => x,
            None => { let r = model_handler(&mut e, d); e.push(T_AFTER + 0, d, r); rewrite(0, r) }
        };
        e.push(T_AFTER + 1, unsafe { D0 }, r);
        e.check();
        assert!(got == rewrite(1, r));
        witness!(unsafe { FAIL[0] } && unsafe { RW[1] } == 0, "combined hook's before error reaches the caller through the outer after-hook");
        witness!(!unsafe { FAIL[0] } && unsafe { RW[0] } == 1 && unsafe { RW[1] } == 2, "both after parts rewrite");
    }
    /// before_and_after(after(serve)).
    fn combined_wraps_after_deep() [unwind 8] {
        knobs();
        let got = run(serve(handle).after(H(1)).before_and_after(H(0)));
        let mut e = Exp::new(); let mut d = unsafe { D0 };
        let want = match model_chain(&mut e, &[0], &mut d) {
            Some(x) => x,
            None => { let r = model_handler(&mut e, d); e.push(T_AFTER + 1, d, r); let r1 = rewrite(1, r); e.push(T_AFTER + 0, d, r1); rewrite(0, r1) }
        };
        e.check();
        assert!(got == want);
        witness!(unsafe { FAIL[0] }, "combined before fails: inner after-hook does not run");
        witness!(!unsafe { FAIL[0] } && unsafe { RW[1] } == 1, "inner after rewrites, combined after sees it");
    }
    /// before(after(before(serve))): three levels.
    fn triple_nest_deep() [unwind 8] {
        knobs();
        let got = run(serve(handle).before(H(2)).after(H(1)).before(H(0)));
        let mut e = Exp::new(); let mut d = unsafe { D0 };
        let want = match model_chain(&mut e, &[0], &mut d) {
            Some(x) => x,
            None => {
                let d0 = d;
                let r = match model_chain(&mut e, &[2], &mut d) { Some(x) => x, None => model_handler(&mut e, d) };
                e.push(T_AFTER + 1, d0, r);
                rewrite(1, r)
            }
        };
        e.check();
        assert!(got == want);
        witness!(!unsafe { FAIL[0] } && unsafe { FAIL[2] }, "innermost before fails, middle after sees it");
        witness!(unsafe { FAIL[0] }, "outermost before fails");
    }
    fn before_wraps_combined() [unwind 8] {
        knobs();
        let got = run(serve(handle).before_and_after(H(1)).before(H(0)));
        let mut e = Exp::new(); let mut d = unsafe { D0 };
        let want = match model_chain(&mut e, &[0, 1], &mut d) {
            Some(x) => x,
            None => { let r = model_handler(&mut e, d); e.push(T_AFTER + 1, d, r); rewrite(1, r) }
        };
        e.check();
        assert!(got == want);
        witness!(!unsafe { FAIL[0] } && unsafe { FAIL[1] }, "combined before fails after outer before passed");
        witness!(!unsafe { FAIL[0] } && !unsafe { FAIL[1] }, "all pass");
    }
}
