fn main() {
    #[cfg(not(kani))]
    vhooks::nd::replay_main(vhooks::HARNESSES);
}
