//! C07 / C15 / C16(K1): tarpc's wire schema driven through a typed wire-model serde format.
//! Real code under check: the derived Serialize/Deserialize impls of `ClientMessage<T>`,
//! `Request<T>`, `Response<T>`, `ServerError`, `context::Context`, `trace::{Context, TraceId,
//! SpanId, SamplingDecision}`; `context::absolute_to_relative_time::{serialize, deserialize}`,
//! `context::ten_seconds_from_now`, `trace::u128_serde::{serialize, deserialize}`,
//! `util::serde::{serialize_io_error_kind_as_u32, deserialize_io_error_kind_from_u32}`.
#![allow(static_mut_refs, clippy::all)]
#[path = "../../common/nd.rs"]
pub mod nd;
pub mod wire;
use nd::*;
use wire::*;

use std::io::ErrorKind;
use std::time::Duration;
use tarpc::context::Context;
use tarpc::trace::{self, SamplingDecision};
use tarpc::{ClientMessage, Request, Response, ServerError};

fn zero_ctx() -> Context { unsafe { std::mem::zeroed() } }
fn sym_trace() -> trace::Context {
    let mut t = trace::Context::default();
    t.trace_id = any_u128().into();
    t.span_id = any_u64().into();
    t.sampling_decision = if any_bool() { SamplingDecision::Sampled } else { SamplingDecision::Unsampled };
    t
}
fn trace_eq(a: &trace::Context, b: &trace::Context) -> bool {
    u128::from(a.trace_id) == u128::from(b.trace_id) && u64::from(a.span_id) == u64::from(b.span_id)
        && (a.sampling_decision == SamplingDecision::Sampled) == (b.sampling_decision == SamplingDecision::Sampled)
}
/// (secs, nanos) pair with nanos < 10^9, as an Instant.
fn sym_time_u32() -> (i64, u32) { let s = any_u32() as i64; let n = any_u32(); assume(n < 1_000_000_000); (s, n) }
fn add(a: (i64, u32), b: (i64, u32)) -> (i64, u32) {
    let n = a.1 as u64 + b.1 as u64;
    (a.0 + b.0 + (n / 1_000_000_000) as i64, (n % 1_000_000_000) as u32)
}
fn le(a: (i64, u32), b: (i64, u32)) -> bool { a.0 < b.0 || (a.0 == b.0 && a.1 <= b.1) }

// ----------------------------------------------------------------------------- C07
/// One hop: the caller's context is written at `now0`, read at `now0 + transit`.
/// Returns (caller deadline, receiver now, received deadline) as (secs, nanos) pairs.
fn hop(mode: Mode, arrays: bool, now0: (i64, u32), deadline: (i64, u32), transit: (i64, u32)) -> ((i64, u32), (i64, u32)) {
    let mut c = zero_ctx();
    c.deadline = mk_instant(deadline.0, deadline.1);
    c.trace_context = sym_trace();
    set_now(now0.0, now0.1);
    let mut w = Wire::new(mode);
    w.inner_structs_as_arrays = arrays;
    assert!(to_wire(&mut w, &c).is_ok());
    let now1 = add(now0, transit);
    set_now(now1.0, now1.1);
    let back: Result<Context, E> = from_wire(&mut w);
    match back {
        Ok(b) => {
            assert!(w.exhausted());
            assert!(trace_eq(&b.trace_context, &c.trace_context));
            (now1, instant_parts(b.deadline))
        }
        Err(_) => { assert!(false); unreachable!() }   // a passed deadline is not an error either
    }
}
fn c07_hop1(mode: Mode, arrays: bool) {
    let now0 = sym_time_u32();
    let deadline = sym_time_u32();           // before, at or after now0
    let transit = sym_time_u32();
    let (now1, got) = hop(mode, arrays, now0, deadline, transit);
    if le(now0, deadline) {
        // never earlier than the caller's deadline, later by at most the transit time
        assert!(le(deadline, got));
        assert!(le(got, add(deadline, transit)));
        witness!(transit.0 > 0 && deadline.0 > now0.0, "future deadline, non-zero transit");
    } else {
        // already passed: arrives as the receiver's `now`, not as an error
        assert!(got == now1);
        witness!(true, "deadline already passed when sent");
    }
}
/// Three hops; every handler re-uses the context it received for a nested call after some
/// processing time.  The nested deadline never precedes the original one and exceeds it by at
/// most the accumulated transit time.
fn c07_hops3(mode: Mode) {
    let mut now = sym_time_u32();
    let d0 = sym_time_u32();
    assume(le(now, d0));
    let mut d = d0;
    let mut total_transit = (0i64, 0u32);
    let mut expired = false;
    let mut i = 0;
    while i < 3 {
        let transit = (any_u16() as i64, 0u32);
        let processing = (any_u16() as i64, 0u32);
        if !le(now, d) { expired = true; }
        let (now1, got) = hop(mode, false, now, d, transit);
        if !expired {
            total_transit = add(total_transit, transit);
            assert!(le(d0, got));
            assert!(le(got, add(d0, total_transit)));
        } else {
            assert!(le(d0, got));
        }
        d = got;
        now = add(now1, processing);
        i += 1;
    }
    witness!(!expired && total_transit.0 > 2, "three live hops with transit delay");
    witness!(expired, "deadline ran out during processing at some hop");
}
/// Same through the whole message: ClientMessage::Request whose context has no deadline field.
fn c07_default_deadline_request(arrays: bool) {
    let now0 = sym_time_u32();
    let transit = sym_time_u32();
    let mut c = zero_ctx();
    c.deadline = mk_instant(now0.0 + 77, now0.1);
    c.trace_context = sym_trace();
    let id = any_u64();
    let body = any_u32();
    let m = ClientMessage::Request(Request { context: c, id, message: body });
    set_now(now0.0, now0.1);
    let mut w = Wire::new(Mode::Json);
    w.skip_field = "deadline";
    w.inner_structs_as_arrays = arrays;
    assert!(to_wire(&mut w, &m).is_ok());
    let now1 = add(now0, transit);
    set_now(now1.0, now1.1);
    match from_wire::<ClientMessage<u32>>(&mut w) {
        Ok(ClientMessage::Request(r)) => {
            assert!(w.exhausted());
            assert!(r.id == id && r.message == body && trace_eq(&r.context.trace_context, &c.trace_context));
            assert!(instant_parts(r.context.deadline) == add(now1, (10, 0)));
            witness!(transit.0 > 1000, "long transit, default still counted from decode time");
        }
        _ => { assert!(false); }
    }
}
/// Self-describing peer that omits the deadline: the documented 10 s default, counted from
/// `now` at decode time (Context alone).
fn c07_default_deadline(arrays: bool) {
    let now0 = sym_time_u32();
    let transit = sym_time_u32();
    let mut c = zero_ctx();
    c.deadline = mk_instant(now0.0 + 77, now0.1);
    c.trace_context = sym_trace();
    set_now(now0.0, now0.1);
    let mut w = Wire::new(Mode::Json);
    w.skip_field = "deadline";
    w.inner_structs_as_arrays = arrays;
    assert!(to_wire(&mut w, &c).is_ok());
    let now1 = add(now0, transit);
    set_now(now1.0, now1.1);
    match from_wire::<Context>(&mut w) {
        Ok(r) => {
            assert!(w.exhausted());
            assert!(trace_eq(&r.trace_context, &c.trace_context));
            assert!(instant_parts(r.deadline) == add(now1, (10, 0)));
            witness!(transit.0 > 1000, "long transit, default still counted from decode time");
        }
        _ => { assert!(false); }
    }
}

// ----------------------------------------------------------------------------- C15
fn c15_request_rt(mode: Mode, arrays: bool) {
    let now0 = sym_time_u32();
    set_now(now0.0, now0.1);
    let rem = sym_time_u32();
    let mut c = zero_ctx();
    let dl = add(now0, rem);
    c.deadline = mk_instant(dl.0, dl.1);
    c.trace_context = sym_trace();
    let id = any_u64();
    let body = any_u32();
    let m = ClientMessage::Request(Request { context: c, id, message: body });
    let mut w = Wire::new(mode);
    w.inner_structs_as_arrays = arrays;
    assert!(to_wire(&mut w, &m).is_ok());
    match from_wire::<ClientMessage<u32>>(&mut w) {
        Ok(ClientMessage::Request(r)) => {
            assert!(w.exhausted());
            assert!(r.id == id);
            assert!(r.message == body);
            assert!(trace_eq(&r.context.trace_context, &c.trace_context));
            assert!(instant_parts(r.context.deadline) == dl);   // same clock reading on both sides
            witness!(id == u64::MAX, "boundary id");
            witness!(u128::from(c.trace_context.trace_id) > u64::MAX as u128, "trace id uses the high half");
        }
        _ => { assert!(false); }
    }
}
fn c15_request_array_body(mode: Mode) {
    let mut c = zero_ctx();
    c.deadline = mk_instant(2000, 5);
    c.trace_context = sym_trace();
    let id = any_u64();
    let x = any_u64();
    let body: [u8; 8] = x.to_le_bytes();
    let m = ClientMessage::Request(Request { context: c, id, message: body });
    let mut w = Wire::new(mode);
    assert!(to_wire(&mut w, &m).is_ok());
    match from_wire::<ClientMessage<[u8; 8]>>(&mut w) {
        Ok(ClientMessage::Request(r)) => {
            assert!(w.exhausted() && r.id == id);
            assert!(u64::from_le_bytes(r.message) == x);
            witness!(x != 0, "non-zero body");
        }
        _ => { assert!(false); }
    }
}
fn c15_cancel_rt(mode: Mode, omit_trace: bool) {
    let t = sym_trace();
    let id = any_u64();
    let m: ClientMessage<u32> = ClientMessage::Cancel { trace_context: t, request_id: id };
    let mut w = Wire::new(mode);
    if omit_trace { w.skip_field = "trace_context"; }
    assert!(to_wire(&mut w, &m).is_ok());
    match from_wire::<ClientMessage<u32>>(&mut w) {
        Ok(ClientMessage::Cancel { trace_context, request_id }) => {
            assert!(w.exhausted());
            assert!(request_id == id);
            if omit_trace { assert!(trace_eq(&trace_context, &trace::Context::default())); }
            else { assert!(trace_eq(&trace_context, &t)); }
            witness!(id == 0, "request id zero");
            witness!(id > u32::MAX as u64, "request id beyond 32 bits");
        }
        _ => { assert!(false); }
    }
}
fn c15_response_ok_rt(mode: Mode) {
    let id = any_u64();
    let body = any_u32();
    let m: Response<u32> = Response { request_id: id, message: Ok(body) };
    let mut w = Wire::new(mode);
    assert!(to_wire(&mut w, &m).is_ok());
    match from_wire::<Response<u32>>(&mut w) {
        Ok(r) => {
            assert!(w.exhausted() && r.request_id == id);
            let ok = matches!(&r.message, Ok(b) if *b == body);
            std::mem::forget(r);
            assert!(ok);
            witness!(body == u32::MAX, "boundary body");
        }
        Err(_) => { assert!(false); }
    }
}

/// C01: ids are never defaulted.  A Response frame without `request_id` (self-describing codec)
/// must be a decode error — were it to decode, it would complete whichever call holds the default
/// id although the peer sent nothing for that call.
fn c01_response_requires_id() {
    let id = any_u64();
    let body = any_u32();
    let m: Response<u32> = Response { request_id: id, message: Ok(body) };
    let mut w = Wire::new(Mode::Json);
    w.skip_field = "request_id";
    assert!(to_wire(&mut w, &m).is_ok());
    std::mem::forget(m);
    let r = from_wire::<Response<u32>>(&mut w);
    let rejected = r.is_err();
    std::mem::forget(r);
    assert!(rejected, "a response without a request id decoded");
    witness!(id == 0, "the omitted id was the default id");
    witness!(id != 0, "the omitted id was not the default id");
}
/// Same for a Cancel without `request_id` (C03/C04 side; cheap to keep next to it).
fn c01_cancel_requires_id() {
    let id = any_u64();
    let m: ClientMessage<u32> = ClientMessage::Cancel { trace_context: trace::Context::default(), request_id: id };
    let mut w = Wire::new(Mode::Json);
    w.inner_structs_as_arrays = true;
    w.skip_field = "request_id";
    assert!(to_wire(&mut w, &m).is_ok());
    let r = from_wire::<ClientMessage<u32>>(&mut w);
    let rejected = r.is_err();
    std::mem::forget(r);
    assert!(rejected, "a cancellation without a request id decoded");
    witness!(id == 0, "default id omitted");
    witness!(id != 0, "non-default id omitted");
}

pub mod kinds;
pub use kinds::{KINDS, PORTABLE};
/// Error kinds: the 18 portable kinds round-trip exactly, every other kind degrades to Other.
/// (ServerError alone; `c15_response_err_rt` wraps one concrete kind in a Response.)
fn c15_errkind_rt(mode: Mode) {
    let i = any_usize();
    assume(i < KINDS.len());
    let kind = KINDS[i];
    let e = ServerError::new(kind, String::new());
    let mut w = Wire::new(mode);
    assert!(to_wire(&mut w, &e).is_ok());
    std::mem::forget(e);
    match from_wire::<ServerError>(&mut w) {
        Ok(b) => {
            let k = b.kind;
            std::mem::forget(b);
            assert!(w.exhausted());
            if i < PORTABLE { assert!(k == kind); } else { assert!(k == ErrorKind::Other); }
            witness!(i == 1, "PermissionDenied");
            witness!(i == 17, "UnexpectedEof (last portable kind)");
            witness!(i >= PORTABLE, "a non-portable kind");
        }
        Err(_) => { assert!(false); }
    }
}
/// An error response keeps its request id and arrives as an error of the same kind (NotFound,
/// the one code every codec configuration writes identically).
fn c15_response_err_rt(mode: Mode) {
    let id = any_u64();
    let m: Response<u32> = Response { request_id: id, message: Err(ServerError::new(ErrorKind::NotFound, String::new())) };
    let mut w = Wire::new(mode);
    assert!(to_wire(&mut w, &m).is_ok());
    std::mem::forget(m);
    match from_wire::<Response<u32>>(&mut w) {
        Ok(r) => {
            assert!(w.exhausted() && r.request_id == id);
            let ok = matches!(&r.message, Err(e) if e.kind == ErrorKind::NotFound);
            std::mem::forget(r);
            assert!(ok);
            witness!(id == u64::MAX, "boundary id");
        }
        Err(_) => { assert!(false); }
    }
}
/// Any u32 a peer may put on the wire as an error kind decodes to SOME kind (unknown -> Other).
fn c15_errkind_any_u32(mode: Mode) {
    #[derive(serde::Serialize)]
    struct RawErr { kind: u32, detail: String }
    let code = any_u32();
    let mut w = Wire::new(mode);
    assert!(to_wire(&mut w, &RawErr { kind: code, detail: String::new() }).is_ok());
    match from_wire::<ServerError>(&mut w) {
        Ok(e) => {
            let k = e.kind;
            std::mem::forget(e);
            assert!(w.exhausted());
            if (code as usize) < PORTABLE { assert!(k == KINDS[code as usize]); } else { assert!(k == ErrorKind::Other); }
            witness!(code > 1000, "unknown code");
            witness!(code == 17, "last known code");
        }
        Err(_) => { assert!(false); }
    }
}
/// Token counts of the varint model: variant + (secs, nanos) + 16 id bytes + span + sampling + id + body.
const REQ_TOKENS: usize = 23;
const CANCEL_TOKENS: usize = 20;
/// Two messages written back to back are read back complete, in order, nothing left over.
fn c15_sequence2(mode: Mode) {
    set_now(500, 0);
    let mut c = zero_ctx();
    c.deadline = mk_instant(600, 1);
    c.trace_context = sym_trace();
    let (id1, id2) = (any_u64(), any_u64());
    let b1 = any_u32();
    let m1 = ClientMessage::Request(Request { context: c, id: id1, message: b1 });
    let m2: ClientMessage<u32> = ClientMessage::Cancel { trace_context: c.trace_context, request_id: id2 };
    let mut w = Wire::new(mode);
    assert!(to_wire(&mut w, &m1).is_ok());
    assert!(w.n == REQ_TOKENS);
    assert!(to_wire(&mut w, &m2).is_ok());
    assert!(w.n == REQ_TOKENS + CANCEL_TOKENS);
    match from_wire::<ClientMessage<u32>>(&mut w) { Ok(ClientMessage::Request(r)) => { assert!(r.id == id1 && r.message == b1); } _ => { assert!(false); } }
    // the first message consumed exactly its own tokens; with that proven the cursor is pinned
    // to the concrete value (a symbolic cursor turns every later token read into an array-theory
    // lookup: >600 s)
    assert!(w.r == REQ_TOKENS);
    w.r = REQ_TOKENS;
    match from_wire::<ClientMessage<u32>>(&mut w) { Ok(ClientMessage::Cancel { request_id, trace_context }) => { assert!(request_id == id2 && trace_eq(&trace_context, &c.trace_context)); } _ => { assert!(false); } }
    assert!(w.exhausted());
    witness!(id1 == id2, "request and its own cancellation");
    witness!(id1 != id2, "cancel for another id");
}
/// Three messages written back to back are read back complete, in order, nothing left over.
fn c15_sequence3(mode: Mode, arrays: bool) {
    set_now(500, 0);
    let mut c = zero_ctx();
    c.deadline = mk_instant(600, 1);
    c.trace_context = sym_trace();
    let (id1, id2, id3) = (any_u64(), any_u64(), any_u64());
    let (b1, b3) = (any_u32(), any_u32());
    let m1 = ClientMessage::Request(Request { context: c, id: id1, message: b1 });
    let m2: ClientMessage<u32> = ClientMessage::Cancel { trace_context: c.trace_context, request_id: id2 };
    // (the token array is capped at 64 entries: CBMC treats larger arrays without field
    //  sensitivity, 40 s -> >600 s; Request + Cancel + Cancel = 61 tokens)
    let m3: ClientMessage<u32> = ClientMessage::Cancel { trace_context: c.trace_context, request_id: id3 };
    let mut w = Wire::new(mode);
    w.inner_structs_as_arrays = arrays;
    assert!(to_wire(&mut w, &m1).is_ok());
    assert!(to_wire(&mut w, &m2).is_ok());
    assert!(to_wire(&mut w, &m3).is_ok());
    assert!(w.n == REQ_TOKENS + 2 * CANCEL_TOKENS);
    match from_wire::<ClientMessage<u32>>(&mut w) { Ok(ClientMessage::Request(r)) => { assert!(r.id == id1 && r.message == b1); } _ => { assert!(false); } }
    assert!(w.r == REQ_TOKENS);
    w.r = REQ_TOKENS;
    match from_wire::<ClientMessage<u32>>(&mut w) { Ok(ClientMessage::Cancel { request_id, .. }) => { assert!(request_id == id2); } _ => { assert!(false); } }
    assert!(w.r == REQ_TOKENS + CANCEL_TOKENS);
    w.r = REQ_TOKENS + CANCEL_TOKENS;
    match from_wire::<ClientMessage<u32>>(&mut w) { Ok(ClientMessage::Cancel { request_id, .. }) => { assert!(request_id == id3); } _ => { assert!(false); } }
    assert!(w.exhausted());
    witness!(id2 != id3 && b1 != b3, "two cancels for different ids stay in order");
    witness!(id2 != id1, "cancel for another id");
}

// ----------------------------------------------------------------------------- C16 / K1
/// A peer may put ANY well-typed duration on the wire as the deadline: decoding must not panic
/// (it may fail with an error).  `now` ranges over every plausible CLOCK_MONOTONIC reading.
fn c16_decode_any_deadline(mode: Mode) {
    #[derive(serde::Serialize)]
    struct RawCtx { deadline: RawDur, trace_context: trace::Context }
    #[derive(serde::Serialize)]
    struct RawDur { secs: u64, nanos: u32 }
    let now_s = any_i64();
    let now_n = any_u32();
    assume(now_s >= 0 && now_s <= (1i64 << 40) && now_n < 1_000_000_000);
    set_now(now_s, now_n);
    let secs = any_u64();
    let nanos = any_u32();
    let mut w = Wire::new(mode);
    w.inner_structs_as_arrays = true;
    assert!(to_wire(&mut w, &RawCtx { deadline: RawDur { secs, nanos }, trace_context: sym_trace() }).is_ok());
    let r: Result<Context, E> = from_wire(&mut w);     // must return, Ok or Err
    witness!(r.is_ok() && secs > (1u64 << 40), "a deadline tens of thousands of years away decodes");
    witness!(r.is_err(), "rejected with an error");
    let _ = r;
}

harnesses! {
    fn c07_hop1_varint() [unwind 18] { c07_hop1(Mode::Varint, false) }
    fn c07_hop1_fixint() [unwind 18] { c07_hop1(Mode::Fixint, false) }
    fn c07_hop1_json() [unwind 18] { c07_hop1(Mode::Json, true) }
    fn c07_hop1_mapjson() [unwind 18] { c07_hop1(Mode::Json, false) }
    fn c07_hops3_varint() [unwind 18] { c07_hops3(Mode::Varint) }
    fn c07_default_deadline_json() [unwind 18] { c07_default_deadline(true) }
    fn c07_default_deadline_mapjson() [unwind 18] { c07_default_deadline(false) }
    fn c07_default_deadline_request_json() [unwind 18] { c07_default_deadline_request(true) }

    fn c15_request_rt_varint() [unwind 18] { c15_request_rt(Mode::Varint, false) }
    fn c15_request_rt_fixint() [unwind 18] { c15_request_rt(Mode::Fixint, false) }
    fn c15_request_rt_json() [unwind 18] { c15_request_rt(Mode::Json, true) }
    fn c15_request_array_body_varint() [unwind 18] { c15_request_array_body(Mode::Varint) }
    fn c15_cancel_rt_varint() [unwind 18] { c15_cancel_rt(Mode::Varint, false) }
    fn c15_cancel_rt_mapjson() [unwind 18] { c15_cancel_rt(Mode::Json, false) }
    fn c15_cancel_without_trace_json() [unwind 18] { c15_cancel_rt(Mode::Json, true) }
    fn c15_response_ok_rt_varint() [unwind 12] { c15_response_ok_rt(Mode::Varint) }
    fn c15_response_ok_rt_json() [unwind 12] { c15_response_ok_rt(Mode::Json) }
    fn c15_response_err_rt_varint() [unwind 12] { c15_response_err_rt(Mode::Varint) }
    fn c15_errkind_rt_varint() [unwind 8] { c15_errkind_rt(Mode::Varint) }
    fn c15_errkind_rt_fixint() [unwind 8] { c15_errkind_rt(Mode::Fixint) }
    fn c15_errkind_rt_json() [unwind 8] { c15_errkind_rt(Mode::Json) }
    fn c15_errkind_any_u32_varint() [unwind 8] { c15_errkind_any_u32(Mode::Varint) }
    fn c15_errkind_any_u32_json() [unwind 8] { c15_errkind_any_u32(Mode::Json) }
    fn c15_sequence2_varint() [unwind 18] { c15_sequence2(Mode::Varint) }
    fn c15_sequence3_varint() [unwind 18] { c15_sequence3(Mode::Varint, false) }

    fn c01_response_requires_id_json() [unwind 12] { c01_response_requires_id() }
    fn c01_cancel_requires_id_json() [unwind 18] { c01_cancel_requires_id() }
    fn c16_decode_any_deadline_varint() [unwind 18] { c16_decode_any_deadline(Mode::Varint) }
    fn c16_decode_any_deadline_json() [unwind 18] { c16_decode_any_deadline(Mode::Json) }
}
