fn main() {
    #[cfg(not(kani))]
    vwire::nd::replay_main(vwire::HARNESSES);
}
