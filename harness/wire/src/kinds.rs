use std::io::ErrorKind;
/// Every io::ErrorKind nameable on stable Rust.  The first 18 are tarpc's portable kinds.
pub const KINDS: [ErrorKind; 39] = [
    ErrorKind::NotFound, ErrorKind::PermissionDenied, ErrorKind::ConnectionRefused, ErrorKind::ConnectionReset,
    ErrorKind::ConnectionAborted, ErrorKind::NotConnected, ErrorKind::AddrInUse, ErrorKind::AddrNotAvailable,
    ErrorKind::BrokenPipe, ErrorKind::AlreadyExists, ErrorKind::WouldBlock, ErrorKind::InvalidInput,
    ErrorKind::InvalidData, ErrorKind::TimedOut, ErrorKind::WriteZero, ErrorKind::Interrupted,
    ErrorKind::Other, ErrorKind::UnexpectedEof,
    // not portable: must arrive as Other
    ErrorKind::HostUnreachable, ErrorKind::NetworkUnreachable, ErrorKind::NetworkDown, ErrorKind::NotADirectory,
    ErrorKind::IsADirectory, ErrorKind::DirectoryNotEmpty, ErrorKind::ReadOnlyFilesystem, ErrorKind::StaleNetworkFileHandle,
    ErrorKind::StorageFull, ErrorKind::NotSeekable, ErrorKind::QuotaExceeded, ErrorKind::FileTooLarge,
    ErrorKind::ResourceBusy, ErrorKind::ExecutableFileBusy, ErrorKind::Deadlock, ErrorKind::CrossesDevices,
    ErrorKind::TooManyLinks, ErrorKind::InvalidFilename, ErrorKind::ArgumentListTooLong, ErrorKind::Unsupported,
    ErrorKind::OutOfMemory,
];
pub const PORTABLE: usize = 18;
