//! Harness-side serde data format ("wire model"): a fixed array of typed tokens instead of bytes.
//! It lets Kani drive tarpc's REAL derived Serialize/Deserialize impls, `absolute_to_relative_time`,
//! `u128_serde` and the io::ErrorKind table without heap-growing buffers, and it models the
//! integer conventions of the three shipped codec configurations:
//!
//!   Mode::Varint — bincode::DefaultOptions (what tokio_serde::formats::Bincode uses): unsigned
//!                  integers as varint(u64), signed integers zig-zag encoded first; reading a
//!                  narrower unsigned fails if the decoded u64 does not fit.
//!   Mode::Fixint — bincode with fixed-width ints (bincode::serialize): little-endian two's
//!                  complement of the declared width; a read of another width desynchronises the
//!                  stream (modelled as an error).
//!   Mode::Json   — self-describing: mathematical integers (range checked on read), structs as
//!                  maps keyed by field name (fields may be absent), enums externally tagged by
//!                  variant name, Option::None as null.
//!
//! The integer conventions are validated against the real bincode / serde_json crates by
//! /verif/replay (native differential test) on every run.  The error type is a unit struct: no
//! message formatting.
use serde::de::{self, DeserializeSeed, EnumAccess, MapAccess, SeqAccess, VariantAccess, Visitor};
use serde::ser::{self, Serialize};

#[derive(Debug, Clone, Copy, PartialEq, Eq)]
pub enum Mode { Varint, Fixint, Json }

#[derive(Debug)]
pub struct E;
impl std::fmt::Display for E { fn fmt(&self, _: &mut std::fmt::Formatter<'_>) -> std::fmt::Result { Ok(()) } }
impl std::error::Error for E {}
impl ser::Error for E { fn custom<T: std::fmt::Display>(_: T) -> Self { E } }
impl de::Error for E { fn custom<T: std::fmt::Display>(_: T) -> Self { E } }

/// Token kinds.
pub const UINT: u8 = 0;   // v = value, w = declared width in bits
pub const SINT: u8 = 1;   // v = value sign-extended to 64 bits, w = declared width
pub const STR: u8 = 2;    // s = the string (field name / variant name / string payload)
pub const MAP: u8 = 3;    // v = number of entries that follow
pub const NULL: u8 = 4;
pub const BOOL: u8 = 5;
pub const SEQ: u8 = 6;    // v = number of elements (JSON arrays, varlen seqs)

pub const EOF: u8 = 7;    // returned by get()/peek() past the end (no Result wrapper: see below)

/// Strings are interned: a token carries an index into NAMES, not a pointer.  A `&str` field
/// would give `Tok` a niche, `Result<Tok, E>` / `Option<Tok>` would be niche-encoded, and CBMC's
/// constant propagation does not see through that encoding: token contents (map lengths!) turn
/// symbolic and every loop over them unwinds to the bound (measured: 17 s -> 731 s).
pub const NAMES: [&str; 21] = ["", "deadline", "trace_context", "trace_id", "span_id", "sampling_decision",
    "context", "id", "message", "request_id", "kind", "detail", "Request", "Cancel", "Ok", "Err",
    "Sampled", "Unsampled", "secs", "nanos", "Duration"];
pub fn intern(name: &str) -> u8 {
    // straight-line (no loop over the table: keeps the unwind bound at the longest field name)
    match name {
        "" => 0, "deadline" => 1, "trace_context" => 2, "trace_id" => 3, "span_id" => 4, "sampling_decision" => 5,
        "context" => 6, "id" => 7, "message" => 8, "request_id" => 9, "kind" => 10, "detail" => 11,
        "Request" => 12, "Cancel" => 13, "Ok" => 14, "Err" => 15, "Sampled" => 16, "Unsampled" => 17,
        "secs" => 18, "nanos" => 19, "Duration" => 20, _ => 255,
    }
}
/// Names outside the fixed table (used by the glue crate for macro-generated enums): interned at
/// run time into a small table; ids start at 32.
pub static mut EXTRA: [&'static str; 12] = [""; 12];
pub static mut NEXTRA: usize = 0;
pub fn intern_dyn(name: &'static str) -> u8 {
    let fixed = intern(name);
    if fixed != 255 { return fixed; }
    let mut i = 0;
    unsafe {
        while i < NEXTRA { if str_eq(EXTRA[i], name) { return 32 + i as u8; } i += 1; }
        if NEXTRA >= EXTRA.len() { return 255; }
        EXTRA[NEXTRA] = name;
        NEXTRA += 1;
        32 + (NEXTRA - 1) as u8
    }
}
pub fn name_of(id: u8) -> &'static str {
    if (id as usize) < NAMES.len() { NAMES[id as usize] } else { unsafe { EXTRA[(id - 32) as usize] } }
}
#[derive(Clone, Copy)]
pub struct Tok { pub k: u8, pub w: u8, pub s: u8, pub v: u64 }
/// <= 64: CBMC's field sensitivity stops at arrays of 64 elements (larger: array theory, 15x slower).
pub const N: usize = 64;
pub struct Wire { pub t: [Tok; N], pub n: usize, pub r: usize, pub mode: Mode,
                  /// serializer side: a struct field with this name is left out (JSON only)
                  pub skip_field: &'static str,
                  /// JSON only: the peer writes 3-field structs (trace::Context) as arrays, which
                  /// serde_json accepts for any struct.  Keeps the derived `visit_map` of the inner
                  /// struct (the expensive part under CBMC) out of a harness that is about the outer one.
                  pub inner_structs_as_arrays: bool,
                  /// accept names outside the fixed table (see intern_dyn)
                  pub dynamic_names: bool }
const NONE: Tok = Tok { k: EOF, w: 0, s: 0, v: 0 };
impl Wire {
    pub fn new(mode: Mode) -> Self { Wire { t: [NONE; N], n: 0, r: 0, mode, skip_field: "", inner_structs_as_arrays: false, dynamic_names: false } }
    fn put(&mut self, k: u8, w: u8, v: u64, s: &'static str) -> Result<(), E> {
        if self.n >= N { return Err(E); }
        let id = if s.is_empty() { 0 } else if self.dynamic_names { intern_dyn(s) } else { intern(s) };
        if id == 255 { return Err(E); }
        self.t[self.n] = Tok { k, w, s: id, v };
        self.n += 1;
        Ok(())
    }
    /// Past the end: a token of kind EOF (every reader rejects it).
    fn get(&mut self) -> Tok {
        if self.r >= self.n { return NONE; }
        let t = self.t[self.r];
        self.r += 1;
        t
    }
    fn peek(&self) -> Tok { if self.r >= self.n { NONE } else { self.t[self.r] } }
    pub fn exhausted(&self) -> bool { self.r == self.n }
}

fn umax(w: u8) -> u64 { if w >= 64 { u64::MAX } else { (1u64 << w) - 1 } }
fn zigzag(v: i64) -> u64 { if v < 0 { (!(v as u64)).wrapping_mul(2).wrapping_add(1) } else { (v as u64).wrapping_mul(2) } }
fn unzigzag(u: u64) -> i64 { if u & 1 == 1 { !((u >> 1) as i64) } else { (u >> 1) as i64 } }
fn sext(bits: u64, w: u8) -> i64 { if w >= 64 { bits as i64 } else { let sh = 64 - w as u32; ((bits << sh) as i64) >> sh } }

/// What an unsigned read of `w` bits sees for token `t` under `mode`.
pub fn read_unsigned(mode: Mode, t: Tok, w: u8) -> Result<u64, E> {
    if t.k != UINT && t.k != SINT { return Err(E); }
    match mode {
        Mode::Varint => {
            let enc = if t.k == SINT { zigzag(t.v as i64) } else { t.v };
            if enc > umax(w) { Err(E) } else { Ok(enc) }
        }
        Mode::Fixint => { if t.w != w { Err(E) } else { Ok(t.v & umax(w)) } }
        Mode::Json => {
            if t.k == SINT && (t.v as i64) < 0 { return Err(E); }
            if t.v > umax(w) { Err(E) } else { Ok(t.v) }
        }
    }
}
/// What a signed read of `w` bits sees.
pub fn read_signed(mode: Mode, t: Tok, w: u8) -> Result<i64, E> {
    if t.k != UINT && t.k != SINT { return Err(E); }
    let fits = |x: i64| { let m = sext(x as u64, w); m == x };
    match mode {
        Mode::Varint => {
            let enc = if t.k == SINT { zigzag(t.v as i64) } else { t.v };
            let x = unzigzag(enc);
            if fits(x) { Ok(x) } else { Err(E) }
        }
        Mode::Fixint => { if t.w != w { Err(E) } else { Ok(sext(t.v & umax(w), w)) } }
        Mode::Json => {
            if t.k == UINT { if t.v > i64::MAX as u64 { return Err(E); } }
            let x = t.v as i64;
            if fits(x) { Ok(x) } else { Err(E) }
        }
    }
}

// =================================================================== serializer
pub struct S<'a>(pub &'a mut Wire);
macro_rules! put_u { ($($f:ident $t:ty, $w:literal);*) => { $(fn $f(self, v: $t) -> Result<(), E> { self.0.put(UINT, $w, v as u64, "") })* } }
macro_rules! put_i { ($($f:ident $t:ty, $w:literal);*) => { $(fn $f(self, v: $t) -> Result<(), E> { self.0.put(SINT, $w, v as i64 as u64, "") })* } }
impl<'a, 'b> ser::Serializer for &'b mut S<'a> {
    type Ok = (); type Error = E;
    type SerializeSeq = Self; type SerializeTuple = Self; type SerializeTupleStruct = Self; type SerializeTupleVariant = Self;
    type SerializeMap = ser::Impossible<(), E>; type SerializeStruct = StructSer<'a, 'b>; type SerializeStructVariant = StructSer<'a, 'b>;
    put_u!(serialize_u8 u8, 8; serialize_u16 u16, 16; serialize_u32 u32, 32; serialize_u64 u64, 64);
    put_i!(serialize_i8 i8, 8; serialize_i16 i16, 16; serialize_i32 i32, 32; serialize_i64 i64, 64);
    fn serialize_bool(self, v: bool) -> Result<(), E> { self.0.put(BOOL, 1, v as u64, "") }
    fn serialize_char(self, _: char) -> Result<(), E> { Err(E) }
    fn serialize_f32(self, _: f32) -> Result<(), E> { Err(E) }
    fn serialize_f64(self, _: f64) -> Result<(), E> { Err(E) }
    /// Only empty strings are carried (payload strings are outside the claim).
    fn serialize_str(self, v: &str) -> Result<(), E> { if v.is_empty() { self.0.put(STR, 0, 0, "") } else { Err(E) } }
    fn serialize_bytes(self, _: &[u8]) -> Result<(), E> { Err(E) }
    fn serialize_none(self) -> Result<(), E> { if self.0.mode == Mode::Json { self.0.put(NULL, 0, 0, "") } else { self.0.put(UINT, 8, 0, "") } }
    fn serialize_some<T: ?Sized + Serialize>(self, v: &T) -> Result<(), E> { if self.0.mode != Mode::Json { self.0.put(UINT, 8, 1, "")?; } v.serialize(self) }
    fn serialize_unit(self) -> Result<(), E> { if self.0.mode == Mode::Json { self.0.put(NULL, 0, 0, "") } else { Ok(()) } }
    fn serialize_unit_struct(self, _: &'static str) -> Result<(), E> { self.serialize_unit() }
    fn serialize_unit_variant(self, _: &'static str, i: u32, name: &'static str) -> Result<(), E> {
        if self.0.mode == Mode::Json { self.0.put(STR, 0, 0, name) } else { self.0.put(UINT, 32, i as u64, "") }
    }
    fn serialize_newtype_struct<T: ?Sized + Serialize>(self, _: &'static str, v: &T) -> Result<(), E> { v.serialize(self) }
    fn serialize_newtype_variant<T: ?Sized + Serialize>(self, _: &'static str, i: u32, name: &'static str, v: &T) -> Result<(), E> {
        if self.0.mode == Mode::Json { self.0.put(MAP, 0, 1, "")?; self.0.put(STR, 0, 0, name)?; } else { self.0.put(UINT, 32, i as u64, "")?; }
        v.serialize(self)
    }
    fn serialize_seq(self, len: Option<usize>) -> Result<Self, E> { self.0.put(SEQ, 0, len.ok_or(E)? as u64, "")?; Ok(self) }
    fn serialize_tuple(self, len: usize) -> Result<Self, E> { if self.0.mode == Mode::Json { self.0.put(SEQ, 0, len as u64, "")?; } Ok(self) }
    fn serialize_tuple_struct(self, _: &'static str, len: usize) -> Result<Self, E> { self.serialize_tuple(len) }
    fn serialize_tuple_variant(self, _: &'static str, _: u32, _: &'static str, _: usize) -> Result<Self, E> { Err(E) }
    fn serialize_map(self, _: Option<usize>) -> Result<Self::SerializeMap, E> { Err(E) }
    fn serialize_struct(self, _: &'static str, len: usize) -> Result<StructSer<'a, 'b>, E> {
        let at = self.0.n;
        let as_array = self.0.inner_structs_as_arrays && len == 3;
        if self.0.mode == Mode::Json { if as_array { self.0.put(SEQ, 0, len as u64, "")?; } else { self.0.put(MAP, 0, len as u64, "")?; } }
        Ok(StructSer { s: self, at, as_array })
    }
    fn serialize_struct_variant(self, _: &'static str, i: u32, name: &'static str, len: usize) -> Result<StructSer<'a, 'b>, E> {
        if self.0.mode == Mode::Json { self.0.put(MAP, 0, 1, "")?; self.0.put(STR, 0, 0, name)?; } else { self.0.put(UINT, 32, i as u64, "")?; }
        let at = self.0.n;
        if self.0.mode == Mode::Json { self.0.put(MAP, 0, len as u64, "")?; }
        Ok(StructSer { s: self, at, as_array: false })
    }
}
macro_rules! compound { ($($tr:ident $m:ident),*) => { $(impl<'a,'b> ser::$tr for &'b mut S<'a> { type Ok = (); type Error = E;
    fn $m<T: ?Sized + Serialize>(&mut self, v: &T) -> Result<(), E> { v.serialize(&mut **self) } fn end(self) -> Result<(), E> { Ok(()) } })* } }
compound!(SerializeSeq serialize_element, SerializeTuple serialize_element, SerializeTupleStruct serialize_field, SerializeTupleVariant serialize_field);
pub struct StructSer<'a, 'b> { s: &'b mut S<'a>, at: usize, as_array: bool }
impl<'a, 'b> StructSer<'a, 'b> {
    fn field<T: ?Sized + Serialize>(&mut self, name: &'static str, v: &T) -> Result<(), E> {
        if self.s.0.mode == Mode::Json && !self.as_array {
            if str_eq(name, self.s.0.skip_field) {
                // the peer omits this field: one entry less in the enclosing map
                let at = self.at;
                self.s.0.t[at].v -= 1;
                return Ok(());
            }
            self.s.0.put(STR, 0, 0, name)?;
        }
        v.serialize(&mut *self.s)
    }
}
impl<'a, 'b> ser::SerializeStruct for StructSer<'a, 'b> { type Ok = (); type Error = E;
    fn serialize_field<T: ?Sized + Serialize>(&mut self, name: &'static str, v: &T) -> Result<(), E> { self.field(name, v) } fn end(self) -> Result<(), E> { Ok(()) } }
impl<'a, 'b> ser::SerializeStructVariant for StructSer<'a, 'b> { type Ok = (); type Error = E;
    fn serialize_field<T: ?Sized + Serialize>(&mut self, name: &'static str, v: &T) -> Result<(), E> { self.field(name, v) } fn end(self) -> Result<(), E> { Ok(()) } }

pub fn str_eq(a: &str, b: &str) -> bool {
    let (a, b) = (a.as_bytes(), b.as_bytes());
    if a.len() != b.len() { return false; }
    let mut i = 0;
    while i < a.len() { if a[i] != b[i] { return false; } i += 1; }
    true
}

// =================================================================== deserializer
pub struct D<'a>(pub &'a mut Wire);
macro_rules! get_u { ($($f:ident $v:ident $t:ty, $w:literal);*) => { $(fn $f<V: Visitor<'de>>(self, vis: V) -> Result<V::Value, E> {
    let t = self.0.get(); let x = read_unsigned(self.0.mode, t, $w)?; vis.$v(x as $t) })* } }
macro_rules! get_i { ($($f:ident $v:ident $t:ty, $w:literal);*) => { $(fn $f<V: Visitor<'de>>(self, vis: V) -> Result<V::Value, E> {
    let t = self.0.get(); let x = read_signed(self.0.mode, t, $w)?; vis.$v(x as $t) })* } }
impl<'de, 'a, 'b> de::Deserializer<'de> for &'b mut D<'a> {
    type Error = E;
    fn deserialize_any<V: Visitor<'de>>(self, _: V) -> Result<V::Value, E> { Err(E) }
    get_u!(deserialize_u8 visit_u8 u8, 8; deserialize_u16 visit_u16 u16, 16; deserialize_u32 visit_u32 u32, 32; deserialize_u64 visit_u64 u64, 64);
    get_i!(deserialize_i8 visit_i8 i8, 8; deserialize_i16 visit_i16 i16, 16; deserialize_i32 visit_i32 i32, 32; deserialize_i64 visit_i64 i64, 64);
    fn deserialize_bool<V: Visitor<'de>>(self, vis: V) -> Result<V::Value, E> { let t = self.0.get(); if t.k != BOOL { return Err(E); } vis.visit_bool(t.v != 0) }
    fn deserialize_str<V: Visitor<'de>>(self, vis: V) -> Result<V::Value, E> { let t = self.0.get(); if t.k != STR { return Err(E); } vis.visit_str(name_of(t.s)) }
    fn deserialize_string<V: Visitor<'de>>(self, vis: V) -> Result<V::Value, E> { self.deserialize_str(vis) }
    fn deserialize_identifier<V: Visitor<'de>>(self, vis: V) -> Result<V::Value, E> { self.deserialize_str(vis) }
    fn deserialize_option<V: Visitor<'de>>(self, vis: V) -> Result<V::Value, E> {
        if self.0.mode == Mode::Json {
            let k = self.0.peek().k;
            if k == EOF { Err(E) } else if k == NULL { self.0.get(); vis.visit_none() } else { vis.visit_some(self) }
        } else {
            let t = self.0.get();
            match read_unsigned(self.0.mode, t, 8)? { 0 => vis.visit_none(), 1 => vis.visit_some(self), _ => Err(E) }
        }
    }
    fn deserialize_unit<V: Visitor<'de>>(self, vis: V) -> Result<V::Value, E> {
        if self.0.mode == Mode::Json { if self.0.get().k != NULL { return Err(E); } }
        vis.visit_unit()
    }
    fn deserialize_unit_struct<V: Visitor<'de>>(self, _: &'static str, vis: V) -> Result<V::Value, E> { self.deserialize_unit(vis) }
    fn deserialize_newtype_struct<V: Visitor<'de>>(self, _: &'static str, vis: V) -> Result<V::Value, E> { vis.visit_newtype_struct(self) }
    fn deserialize_tuple<V: Visitor<'de>>(self, len: usize, vis: V) -> Result<V::Value, E> {
        if self.0.mode == Mode::Json { let t = self.0.get(); if t.k != SEQ || t.v != len as u64 { return Err(E); } }
        vis.visit_seq(Seq { d: self, left: len })
    }
    fn deserialize_tuple_struct<V: Visitor<'de>>(self, _: &'static str, len: usize, vis: V) -> Result<V::Value, E> { self.deserialize_tuple(len, vis) }
    fn deserialize_struct<V: Visitor<'de>>(self, _: &'static str, f: &'static [&'static str], vis: V) -> Result<V::Value, E> {
        if self.0.mode == Mode::Json {
            let t = self.0.get();
            if t.k == SEQ { if t.v != f.len() as u64 { return Err(E); } return vis.visit_seq(Seq { d: self, left: f.len() }); }
            if t.k != MAP { return Err(E); }
            vis.visit_map(Map { d: self, left: t.v as usize })
        } else {
            vis.visit_seq(Seq { d: self, left: f.len() })
        }
    }
    fn deserialize_enum<V: Visitor<'de>>(self, _: &'static str, _: &'static [&'static str], vis: V) -> Result<V::Value, E> {
        if self.0.mode == Mode::Json {
            // "Variant"  or  {"Variant": content}
            let t = self.0.peek();
            if t.k == MAP { self.0.get(); if t.v != 1 { return Err(E); } }
            else if t.k != STR { return Err(E); }
        }
        vis.visit_enum(self)
    }
    fn deserialize_ignored_any<V: Visitor<'de>>(self, _: V) -> Result<V::Value, E> { Err(E) }
    serde::forward_to_deserialize_any! { i128 u128 f32 f64 char bytes byte_buf seq map }
}
struct Seq<'b, 'a> { d: &'b mut D<'a>, left: usize }
impl<'de, 'a, 'b> SeqAccess<'de> for Seq<'b, 'a> { type Error = E;
    fn next_element_seed<T: DeserializeSeed<'de>>(&mut self, seed: T) -> Result<Option<T::Value>, E> {
        if self.left == 0 { return Ok(None); } self.left -= 1; seed.deserialize(&mut *self.d).map(Some) } }
struct Map<'b, 'a> { d: &'b mut D<'a>, left: usize }
impl<'de, 'a, 'b> MapAccess<'de> for Map<'b, 'a> { type Error = E;
    fn next_key_seed<K: DeserializeSeed<'de>>(&mut self, seed: K) -> Result<Option<K::Value>, E> {
        if self.left == 0 { return Ok(None); } self.left -= 1; seed.deserialize(&mut *self.d).map(Some) }
    fn next_value_seed<T: DeserializeSeed<'de>>(&mut self, seed: T) -> Result<T::Value, E> { seed.deserialize(&mut *self.d) } }
impl<'de, 'a, 'b> EnumAccess<'de> for &'b mut D<'a> { type Error = E; type Variant = Self;
    fn variant_seed<V: DeserializeSeed<'de>>(self, seed: V) -> Result<(V::Value, Self), E> {
        if self.0.mode == Mode::Json {
            let v = seed.deserialize(&mut *self)?;   // identifier by name
            Ok((v, self))
        } else {
            let t = self.0.get();
            let i = read_unsigned(self.0.mode, t, 32)? as u32;
            let v = seed.deserialize(de::value::U32Deserializer::<E>::new(i))?;
            Ok((v, self))
        }
    } }
impl<'de, 'a, 'b> VariantAccess<'de> for &'b mut D<'a> { type Error = E;
    fn unit_variant(self) -> Result<(), E> { Ok(()) }
    fn newtype_variant_seed<T: DeserializeSeed<'de>>(self, seed: T) -> Result<T::Value, E> { seed.deserialize(self) }
    fn tuple_variant<V: Visitor<'de>>(self, _: usize, _: V) -> Result<V::Value, E> { Err(E) }
    fn struct_variant<V: Visitor<'de>>(self, f: &'static [&'static str], vis: V) -> Result<V::Value, E> { de::Deserializer::deserialize_struct(self, "", f, vis) } }

pub fn to_wire<T: Serialize>(w: &mut Wire, v: &T) -> Result<(), E> { v.serialize(&mut S(w)) }
pub fn from_wire<'de, T: serde::Deserialize<'de>>(w: &mut Wire) -> Result<T, E> { T::deserialize(&mut D(w)) }
