//! C15 (end-of-stream clause): `tarpc::serde_transport::Transport`'s Sink/Stream impls over a
//! harness byte stream that records which AsyncWrite operations reach it.  Real code under check:
//! serde_transport::{new, Transport::{poll_ready, poll_flush, poll_close, poll_next}} together
//! with the tokio_serde::Framed and tokio_util::codec::Framed<_, LengthDelimitedCodec> they wrap.
#![allow(static_mut_refs, clippy::all)]
#[path = "../../common/nd.rs"]
pub mod nd;
use nd::*;

use futures::{Sink, Stream};
use std::io;
use std::pin::Pin;
use std::task::{Context, Poll};
use tokio::io::{AsyncRead, AsyncWrite, ReadBuf};
use tokio_util::codec::{Framed, LengthDelimitedCodec};

static mut WRITES: u32 = 0;
static mut FLUSHES: u32 = 0;
static mut SHUTDOWNS: u32 = 0;
static mut READS: u32 = 0;
/// what the stream answers: 0 = Ready(Ok), 1 = Pending, 2 = Ready(Err)
static mut SHUTDOWN_ANSWER: u8 = 0;
static mut FLUSH_ANSWER: u8 = 0;

struct Io;
impl AsyncRead for Io {
    /// End of stream: zero bytes read.
    fn poll_read(self: Pin<&mut Self>, _: &mut Context<'_>, _: &mut ReadBuf<'_>) -> Poll<io::Result<()>> {
        unsafe { READS += 1; }
        Poll::Ready(Ok(()))
    }
}
fn answer(a: u8) -> Poll<io::Result<()>> {
    match a { 0 => Poll::Ready(Ok(())), 1 => Poll::Pending, _ => Poll::Ready(Err(io::Error::from(io::ErrorKind::BrokenPipe))) }
}
impl AsyncWrite for Io {
    fn poll_write(self: Pin<&mut Self>, _: &mut Context<'_>, b: &[u8]) -> Poll<io::Result<usize>> { unsafe { WRITES += 1; } Poll::Ready(Ok(b.len())) }
    fn poll_flush(self: Pin<&mut Self>, _: &mut Context<'_>) -> Poll<io::Result<()>> { unsafe { FLUSHES += 1; answer(FLUSH_ANSWER) } }
    fn poll_shutdown(self: Pin<&mut Self>, _: &mut Context<'_>) -> Poll<io::Result<()>> { unsafe { SHUTDOWNS += 1; answer(SHUTDOWN_ANSWER) } }
}

/// A codec over u32 items that is never asked to (de)serialise in these harnesses.
struct Codec;
impl tokio_serde::Serializer<u32> for Codec {
    type Error = io::Error;
    fn serialize(self: Pin<&mut Self>, _: &u32) -> Result<bytes::Bytes, io::Error> { Ok(bytes::Bytes::new()) }
}
impl tokio_serde::Deserializer<u32> for Codec {
    type Error = io::Error;
    fn deserialize(self: Pin<&mut Self>, _: &bytes::BytesMut) -> Result<u32, io::Error> { Ok(0) }
}
type T = tarpc::serde_transport::Transport<Io, u32, u32, Codec>;
fn transport() -> T { tarpc::serde_transport::new(Framed::new(Io, LengthDelimitedCodec::new()), Codec) }
fn cx_poll<R>(f: impl FnOnce(&mut Context<'_>) -> R) -> R {
    let mut cx = Context::from_waker(std::task::Waker::noop());
    f(&mut cx)
}

harnesses! {
    /// Closing the transport must reach the byte stream's shutdown (that is what lets the peer
    /// see end-of-stream on media that can signal it), and its outcome is what poll_close reports.
    fn c15_close_reaches_the_byte_stream() [unwind 4] {
        unsafe { SHUTDOWN_ANSWER = any_u8(); }
        assume(unsafe { SHUTDOWN_ANSWER } <= 2);
        let mut t = transport();
        let r = cx_poll(|cx| Pin::new(&mut t).poll_close(cx));
        assert!(unsafe { SHUTDOWNS } == 1);
        let code = match &r { Poll::Ready(Ok(())) => 0u8, Poll::Pending => 1, Poll::Ready(Err(_)) => 2 };
        std::mem::forget(r);
        assert!(code == unsafe { SHUTDOWN_ANSWER });
        witness!(code == 0, "closed cleanly");
        witness!(code == 2, "shutdown failed and the failure is reported");
        std::mem::forget(t);
    }
    /// Flushing reaches the byte stream's flush and does NOT shut it down.
    fn c15_flush_is_not_close() [unwind 4] {
        unsafe { FLUSH_ANSWER = any_u8(); }
        assume(unsafe { FLUSH_ANSWER } <= 2);
        let mut t = transport();
        let r = cx_poll(|cx| Pin::new(&mut t).poll_flush(cx));
        assert!(unsafe { FLUSHES } == 1 && unsafe { SHUTDOWNS } == 0);
        let code = match &r { Poll::Ready(Ok(())) => 0u8, Poll::Pending => 1, Poll::Ready(Err(_)) => 2 };
        std::mem::forget(r);
        assert!(code == unsafe { FLUSH_ANSWER });
        witness!(code == 1, "flush pending");
        witness!(code == 0, "flushed");
        std::mem::forget(t);
    }
    /// A byte stream at end-of-file makes the transport's Stream end (None), not hang or error.
    fn c15_eof_ends_the_stream() [unwind 4] {
        let mut t = transport();
        let r = cx_poll(|cx| Pin::new(&mut t).poll_next(cx));
        let code = match &r { Poll::Ready(None) => 0u8, Poll::Pending => 1, Poll::Ready(Some(Ok(_))) => 2, Poll::Ready(Some(Err(_))) => 3 };
        std::mem::forget(r);
        assert!(code == 0);
        assert!(unsafe { READS } >= 1);
        witness!(true, "end of stream reported");
        witness!(unsafe { READS } == 1, "one read");
        std::mem::forget(t);
    }
}
