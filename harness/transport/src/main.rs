fn main() {
    #[cfg(not(kani))]
    vtransport::nd::replay_main(vtransport::HARNESSES);
}
