//! C20 — load-balancing and retry stubs (tarpc/src/client/stub/{load_balance,retry}.rs).
//! Real code under check: `RoundRobin::{new,call}`, `AtomicCycle::next`, `ConsistentHash::
//! {with_hasher,call,hash_request}`, `Retry::{new,call}`.  Backends, hasher and retry policy are
//! harness-side and symbolic.
#![allow(static_mut_refs, clippy::all)]
#[path = "../../common/nd.rs"]
pub mod nd;
use nd::*;

use std::future::Future;
use std::pin::Pin;
use std::sync::Arc;
use std::task::{Context, Poll};
use tarpc::client::stub::{
    load_balance::{ConsistentHash, RoundRobin},
    retry::Retry,
    Stub,
};
use tarpc::client::RpcError;
use tarpc::context;

fn ctx(d: i64) -> context::Context {
    let mut c: context::Context = unsafe { std::mem::zeroed() };
    c.deadline = mk_instant(d, 0);
    c
}

pub const MAXB: usize = 6;
static mut HITS: [u32; MAXB] = [0; MAXB];
static mut LAST_REQ: [u32; MAXB] = [0; MAXB];
static mut LAST_DL: [i64; MAXB] = [0; MAXB];
/// When set, a backend's first poll returns Pending (calls overlap in time).
static mut YIELD_FIRST: bool = false;

/// Backend that records what it was asked and answers with its own index.
#[derive(Clone)]
struct B(usize);
struct YieldOnce(bool);
impl Future for YieldOnce {
    type Output = ();
    fn poll(mut self: Pin<&mut Self>, _: &mut Context<'_>) -> Poll<()> {
        if self.0 { self.0 = false; Poll::Pending } else { Poll::Ready(()) }
    }
}
impl Stub for B {
    type Req = u32;
    type Resp = u32;
    async fn call(&self, c: context::Context, r: u32) -> Result<u32, RpcError> {
        unsafe {
            HITS[self.0] += 1;
            LAST_REQ[self.0] = r;
            LAST_DL[self.0] = instant_parts(c.deadline).0;
        }
        YieldOnce(unsafe { YIELD_FIRST }).await;
        Ok(self.0 as u32)
    }
}
fn backends(n: usize) -> Vec<B> {
    let mut v = Vec::with_capacity(MAXB);
    let mut i = 0;
    while i < n { v.push(B(i)); i += 1; }
    v
}
fn balanced(n: usize) -> bool {
    let mut a = 0;
    while a < n {
        let mut b = 0;
        while b < n {
            let (x, y) = unsafe { (HITS[a], HITS[b]) };
            if x > y + 1 { return false; }
            b += 1;
        }
        a += 1;
    }
    true
}
fn total(n: usize) -> u32 {
    let mut s = 0; let mut a = 0;
    while a < n { s += unsafe { HITS[a] }; a += 1; }
    s
}

// ---- symbolic hasher: deterministic in the data fed; finish() ranges over all of u64 as the
// symbolic 64-bit seeds vary (rotate-xor family; no multiplication: symbolic x symbolic 64-bit
// products stall the SAT back end)
static mut HA: u64 = 0;
static mut HB: u64 = 0;
#[derive(Default, Clone)]
struct SymHasher(u64);
impl std::hash::Hasher for SymHasher {
    fn finish(&self) -> u64 { self.0 }
    fn write(&mut self, bytes: &[u8]) {
        let mut i = 0;
        while i < bytes.len() {
            self.0 = unsafe { (self.0.rotate_left(8) ^ bytes[i] as u64).wrapping_add(HA) };
            i += 1;
        }
    }
    fn write_u32(&mut self, x: u32) {
        self.0 = unsafe { (self.0.rotate_left(32) ^ x as u64).wrapping_add(HA) };
    }
}
#[derive(Default, Clone)]
struct SymBuild;
impl std::hash::BuildHasher for SymBuild {
    type Hasher = SymHasher;
    fn build_hasher(&self) -> SymHasher { SymHasher(unsafe { HB }) }
}

// ---- retry backend: i-th call answers with the i-th symbolic result
pub const MAXA: usize = 8;
static mut RES_OK: [bool; MAXA + 1] = [false; MAXA + 1];
static mut RES_VAL: [u32; MAXA + 1] = [0; MAXA + 1];
static mut RCALLS: usize = 0;
static mut FIRST_PTR: usize = 0;
static mut WANT: u32 = 0;
static mut WANT_DL: i64 = 0;
static mut POLICY_CALLS: usize = 0;
static mut POLICY_MASK: u8 = 0;
static mut LIMIT: usize = 0;
static mut ALL_ERR: bool = false;
/// Retry backends have straight-line bodies and a single result variant each: any branch
/// between variants (or any await) inside the backend leaves the niche-encoded discriminant
/// of Result<u32, RpcError> symbolic for CBMC, which then explores RpcError's `dyn Error`
/// drop glue (io::Error recursion, thread-local destructors matched by signature): > 20 GB.
struct RB;
impl Stub for RB {
    type Req = Arc<u32>;
    type Resp = u32;
    async fn call(&self, c: context::Context, r: Arc<u32>) -> Result<u32, RpcError> {
        let k = backend_common(&c, &r);
        Ok(unsafe { RES_VAL[k] })
    }
}
struct RBErr;
impl Stub for RBErr {
    type Req = Arc<u32>;
    type Resp = u32;
    async fn call(&self, c: context::Context, r: Arc<u32>) -> Result<u32, RpcError> {
        let _ = backend_common(&c, &r);
        Err(RpcError::DeadlineExceeded)
    }
}
fn backend_common(c: &context::Context, r: &Arc<u32>) -> usize {
    let k = unsafe { RCALLS };
    unsafe { RCALLS += 1; }
    // the identical request (same allocation, same value) and the caller's context each time
    assert!(**r == unsafe { WANT });
    assert!(instant_parts(c.deadline).0 == unsafe { WANT_DL });
    // same allocation every time: the stub's own Arc plus exactly this clone are alive
    // (a fresh Arc per attempt would have count 1; pointer->integer casts are avoided
    // because CBMC's pointer encoding makes them expensive)
    assert!(Arc::strong_count(r) == 2);
    assert!(k < unsafe { LIMIT });
    k
}
fn same(res: &Result<u32, RpcError>, k: usize, all_err: bool) -> bool {
    match res {
        Ok(v) => !all_err && unsafe { RES_VAL[k] == *v },
        Err(RpcError::DeadlineExceeded) => all_err,
        _ => false,
    }
}
fn drive<F: Future>(mut f: Pin<&mut F>, max_polls: usize) -> Option<F::Output> {
    let mut i = 0;
    while i < max_polls {
        match poll_once(f.as_mut()) { Poll::Ready(v) => { return Some(v); } p => { std::mem::forget(p); } }
        i += 1;
    }
    None
}


/// Sequential callers: after EVERY prefix of calls the per-backend counts differ by <= 1,
/// every call reaches exactly one backend with the caller's request and context.
/// Extracts Ok(v) from a poll result WITHOUT running RpcError's drop glue (its `dyn Error`
/// payloads are what CBMC spends its time on; the value is forgotten instead).
fn ready_ok(r: Poll<Result<u32, RpcError>>) -> u32 {
    let v = match &r { Poll::Ready(Ok(v)) => Some(*v), _ => None };
    std::mem::forget(r);
    match v { Some(v) => v, None => { assert!(false); 0 } }
}

fn rr_sequential(n: usize, max_calls: usize) {
    let rr = RoundRobin::new(backends(n));
    // every prefix is checked inside the loop, so a fixed number of calls covers all shorter runs
    let calls = max_calls;
    let mut k = 0;
    let mut dispatched = 0u32;
    let mut wrapped = false;
    let now_s = unsafe { NOW.0 };
    while k < calls {
        let req = any_u32();
        // deadlines on both sides of the (stubbed) clock: already expired and still live
        let d = any_u16() as i64;
        let mut f = std::pin::pin!(rr.call(ctx(d), req));
        let r = poll_once(f.as_mut());
        let who = match &r { Poll::Ready(Ok(v)) => *v as i64, Poll::Ready(Err(_)) => -2, Poll::Pending => -1 };
        std::mem::forget(r);
        assert!(who != -1);
        if who == -2 {
            // the property does not forbid a stub to refuse a call whose deadline has ALREADY passed;
            // but then no backend is bothered and the rotation must not move (the `balanced`
            // assertion on the following calls sees a cursor that advanced without a dispatch)
            assert!(d <= now_s, "a call with time left was refused by the load balancer");
            assert!(total(n) == dispatched, "a refused call reached a backend");
        } else {
            assert!((who as usize) < n);
            assert!(unsafe { LAST_REQ[who as usize] } == req);
            assert!(unsafe { LAST_DL[who as usize] } == d);
            dispatched += 1;
            assert!(total(n) == dispatched);
            if dispatched as usize > n && (n == 1 || unsafe { LAST_REQ[0] } != unsafe { LAST_REQ[n - 1] }) { wrapped = true; }
        }
        assert!(balanced(n), "round robin: per-backend dispatch counts differ by more than one");
        k += 1;
    }
    witness!(wrapped, "cursor wrapped around with distinct requests");
    witness!(unsafe { HITS[0] } >= 2, "first backend hit at least twice");
    std::mem::forget(rr);
}

/// Concurrent callers (single-threaded image): 4 call futures exist at once, through the
/// original stub and a clone of it; the solver chooses the order of their first polls (the
/// backend is picked inside the first poll) and of their completions.
fn rr_concurrent(n: usize) {
    unsafe { YIELD_FIRST = true; }
    let rr = RoundRobin::new(backends(n));
    let rr2 = rr.clone();
    // deadlines are in the future of the stubbed clock (1000 s): live calls
    let mut f0 = Box::pin(rr.call(ctx(2001), 10));
    let mut f1 = Box::pin(rr2.call(ctx(2002), 11));
    let mut f2 = Box::pin(rr.call(ctx(2003), 12));
    let mut f3 = Box::pin(rr2.call(ctx(2004), 13));
    let mut done = [false; 4];
    let mut started = [false; 4];
    let mut ndone = 0;
    let mut step = 0;
    let mut first_started = 9u8;
    // each future needs two polls (first: pick + Pending, second: Ready)
    while step < 8 {
        let i = any_u8();
        assume(i < 4 && !done[i as usize]);
        if step == 0 { first_started = i; }
        let r = match i {
            0 => poll_once(f0.as_mut()),
            1 => poll_once(f1.as_mut()),
            2 => poll_once(f2.as_mut()),
            _ => poll_once(f3.as_mut()),
        };
        let outcome = match &r { Poll::Ready(Ok(who)) => *who as i64, Poll::Ready(Err(_)) => -2, Poll::Pending => -1 };
        std::mem::forget(r);
        assert!(outcome != -2);
        if outcome >= 0 {
            assert!(started[i as usize] && (outcome as usize) < n);
            done[i as usize] = true;
            ndone += 1;
        } else {
            assert!(!started[i as usize]);
            started[i as usize] = true;
        }
        // however first polls and completions interleave, the picks so far are balanced
        assert!(balanced(n));
        step += 1;
    }
    assert!(ndone == 4 && total(n) == 4);
    witness!(first_started == 3, "the call created last was polled first");
    witness!(first_started == 0, "the call created first was polled first");
    std::mem::forget(f0); std::mem::forget(f1); std::mem::forget(f2); std::mem::forget(f3);
    std::mem::forget(rr); std::mem::forget(rr2);
}

/// Equal requests go to the same backend; only valid backends are picked; the request is
/// delivered; no panic for any hasher of the family.
fn ch_equal(n: usize) {
    unsafe { HA = any_u64(); HB = any_u64(); }
    let ch = match ConsistentHash::with_hasher(backends(n), SymBuild) { Ok(c) => c, Err(_) => { assert!(false); return; } };
    let r1 = any_u32();
    let r2 = any_u32();
    let mut f = Box::pin(ch.call(ctx(1), r1));
    let a = ready_ok(poll_once(f.as_mut()));
    assert!((a as usize) < n && unsafe { LAST_REQ[a as usize] } == r1);
    let mut g = Box::pin(ch.call(ctx(2), r2));
    let b = ready_ok(poll_once(g.as_mut()));
    assert!((b as usize) < n && unsafe { LAST_REQ[b as usize] } == r2);
    let mut h = Box::pin(ch.call(ctx(3), r1));
    let c = ready_ok(poll_once(h.as_mut()));
    assert!(c == a);
    if r1 == r2 { assert!(a == b); }
    assert!(total(n) == 3);
    witness!(n == 1 || a != b, "different requests reached different backends");
    witness!(r1 == r2, "equal requests");
    std::mem::forget(f); std::mem::forget(g); std::mem::forget(h);
    std::mem::forget(ch);
}

/// Retry: attempts are numbered 1,2,3,...; the policy sees the result of that attempt; the
/// identical Arc is re-sent with the caller's context; the result of the last attempt is
/// returned unchanged; number of backend calls == number of attempts.  Policy = arbitrary
/// predicate of the attempt number (bit i of a symbolic mask) that declines at the latest at
/// attempt `maxa`.
fn retry<S: Stub<Req = Arc<u32>, Resp = u32>>(backend: S, maxa: usize, all_err: bool) {
    unsafe { POLICY_MASK = any_u8(); ALL_ERR = all_err; }
    let mut i = 0;
    while i < maxa { unsafe { RES_VAL[i] = any_u32(); } i += 1; }
    let req = any_u32();
    let d = any_u16() as i64;
    unsafe { WANT = req; WANT_DL = d; LIMIT = maxa; }
    let r = Retry::new(backend, |res: &Result<u32, RpcError>, attempt: u32| {
        let k = unsafe { POLICY_CALLS };
        unsafe { POLICY_CALLS += 1; }
        assert!(attempt as usize == k + 1);          // 1, 2, 3, ...
        assert!(unsafe { RCALLS } == k + 1);          // exactly one backend call per attempt
        assert!(same(res, k, unsafe { ALL_ERR }));    // sees that attempt's own result
        (attempt as usize) < unsafe { LIMIT } && unsafe { POLICY_MASK } >> (attempt - 1) & 1 == 1
    });
    let mut f = Box::pin(r.call(ctx(d), req));
    // ready backends: the whole retry loop runs inside ONE poll
    let p = poll_once(f.as_mut());
    let k = unsafe { RCALLS };
    let ok = match &p { Poll::Ready(res) => same(res, k - 1, all_err), Poll::Pending => false };
    std::mem::forget(p);
    assert!(ok);                                      // last result, unchanged
    assert!(k >= 1 && k <= maxa && unsafe { POLICY_CALLS } == k);
    // stopped exactly where the policy first declined
    let mut j = 1;
    while j < k { assert!(unsafe { POLICY_MASK } >> (j - 1) & 1 == 1); j += 1; }
    assert!(k == maxa || unsafe { POLICY_MASK } >> (k - 1) & 1 == 0);
    witness!(k == maxa, "maximum number of attempts");
    witness!(k == 1, "policy declines after the first attempt");
    std::mem::forget(f);
}

harnesses! {
    fn rr_seq_n1() [unwind 12] { rr_sequential(1, 3) }
    fn rr_seq_n2() [unwind 12] { rr_sequential(2, 6) }
    fn rr_seq_n3() [unwind 12] { rr_sequential(3, 8) }
    fn rr_seq_n4() [unwind 12] { rr_sequential(4, 10) }
    fn rr_conc_n2() [unwind 10] { rr_concurrent(2) }
    fn rr_conc_n3() [unwind 10] { rr_concurrent(3) }
    fn ch_eq_n1() [unwind 6] { ch_equal(1) }
    fn ch_eq_n2() [unwind 6] { ch_equal(2) }
    fn ch_eq_n3() [unwind 6] { ch_equal(3) }
    fn ch_eq_n4() [unwind 6] { ch_equal(4) }
    fn retry_ok_a1() [unwind 3] { retry(RB, 1, false) }
    fn retry_ok_a3() [unwind 5] { retry(RB, 3, false) }
    fn retry_ok_a5() [unwind 7] { retry(RB, 5, false) }
    // ---- thorough tier: deeper bounds
    fn rr_seq_n5_deep() [unwind 18] { rr_sequential(5, 16) }
    fn rr_seq_n6_deep() [unwind 18] { rr_sequential(6, 16) }
    fn rr_conc_n4_deep() [unwind 10] { rr_concurrent(4) }
    fn ch_eq_n5_deep() [unwind 8] { ch_equal(5) }
    fn ch_eq_n6_deep() [unwind 8] { ch_equal(6) }
}
