fn main() {
    #[cfg(not(kani))]
    vstubs::nd::replay_main(vstubs::HARNESSES);
}
