#!/usr/bin/env python3
"""MIR -> SMT engine for C20's concurrency clause: "per-backend counts never differ by more than
one, even when calls are issued concurrently".

Kani executes atomics sequentially, so the Kani harnesses explore poll orders of futures on ONE
thread; they rest on the assumption that the round-robin cursor is advanced by a single atomic
read-modify-write.  This engine checks that assumption on the real code, with the SCHEDULE as a
solver variable:

  1. the MIR of `cycle::State::<T>::next` (the function every RoundRobin::call goes through) is
     re-dumped from the scratch copy and parsed: straight-line statements over usize (const, copy,
     move, Add/Sub/Mul/Rem/Div/BitAnd/..., *WithOverflow + assert, comparisons), `Vec::len`
     (= symbolic backend count n), `<Vec<T> as Index<usize>>::index(_, i)` (= the pick, with its
     bounds check) and atomic operations on the cursor field: load, store, swap, fetch_add,
     fetch_sub, fetch_and, fetch_or, fetch_xor.  Anything else (switchInt, fetch_update with a
     closure, loops) is reported as unsupported -> inconclusive, never as success.
  2. T threads each perform K calls; every call is the parsed sequence of atomic steps with pure
     computation in between.  The global order of atomic steps is a vector of solver variables
     s_0..s_{L-1} (which thread moves at each position), constrained only to give every thread its
     own number of steps: all sequentially-consistent interleavings at atomic-operation granularity
     (for a single atomic location this is exactly its modification order; a load-then-store
     design additionally has weaker-memory behaviours, which can only add violations).
  3. Negated property: some backend is picked at least two times more often than another, or an
     index is out of range / an arithmetic check fails.  unsat from z3 AND cvc5 = holds for every
     schedule within the bounds; sat = a concrete schedule, printed as the interleaving.
  4. Translator validation: under the fully sequential schedule the model's picks must equal the
     picks of the real RoundRobin run natively (replay/tests/rr_sequential_picks.rs).
"""
import re
import subprocess
import time

from mir2smt import Unsupported, parse_blocks, bv

ATOMIC_OPS = {"load", "store", "swap", "fetch_add", "fetch_sub", "fetch_and", "fetch_or", "fetch_xor"}
BIN = {"Add": "bvadd", "Sub": "bvsub", "Mul": "bvmul", "Rem": "bvurem", "Div": "bvudiv", "BitAnd": "bvand", "BitOr": "bvor",
       "BitXor": "bvxor", "Shl": "bvshl", "Shr": "bvlshr"}
CMP = {"Eq": "=", "Lt": "bvult", "Le": "bvule", "Gt": "bvugt", "Ge": "bvuge"}


def find_next_fn(mir):
    """The `next(_1: &State<T>) -> &T` body of the round-robin cycle."""
    m = re.search(r"^fn cycle::<impl at [^>]*>::next\(_1: &State<T>\) -> &T \{\n(.*?)^\}\n", mir, re.S | re.M)
    if not m:
        raise Unsupported("MIR of cycle::State::<T>::next not found")
    return m.group(0)


def parse_call_template(text):
    """Returns a list of steps of ONE call, each ('atomic', op, operand_expr_fn, dst) or
    ('pure', dst, expr_fn) or ('check', cond_fn, msg) and the final ('pick', idx_fn).  expr fns take
    an env (local name -> SMT term) and return an SMT term."""
    blocks = parse_blocks(text)
    steps = []
    cursor_refs, vec_refs = set(), set()
    cur = "bb0"
    seen = 0
    picked = False

    def operand(tok):
        tok = tok.strip()
        m = re.match(r"^(?:copy|move) (_\d+)$", tok)
        if m:
            n = m.group(1)
            return lambda env, n=n: env[n]
        m = re.match(r"^(?:copy|move) \((_\d+)\.([01]): \w+\)$", tok)
        if m:
            n = m.group(1) + "." + m.group(2)
            return lambda env, n=n: env[n]
        m = re.match(r"^const (\d+)_usize$", tok)
        if m:
            v = int(m.group(1))
            return lambda env, v=v: bv(v)
        m = re.match(r"^const (true|false)$", tok)
        if m:
            return lambda env, v=m.group(1): v
        raise Unsupported("operand: " + tok)

    while True:
        seen += 1
        if seen > 200:
            raise Unsupported("control flow does not terminate (loop?)")
        for st in blocks[cur]:
            if st.startswith(("StorageLive", "StorageDead", "nop", "FakeRead")):
                continue
            if st == "return;":
                if not picked:
                    raise Unsupported("function returns without indexing the backend vector")
                return steps
            m = re.match(r"^goto -> (bb\d+);$", st)
            if m:
                cur = m.group(1)
                break
            m = re.match(r"^(_\d+) = &\(\(\*_1\)\.1: .*Atomic<usize>\);$", st)
            if m:
                cursor_refs.add(m.group(1))
                continue
            m = re.match(r"^(_\d+) = &\(\(\*_1\)\.0: .*Vec<T>\);$", st)
            if m:
                vec_refs.add(m.group(1))
                continue
            if re.match(r"^_\d+ = (std::sync::atomic::|core::sync::atomic::)?Ordering::\w+;$", st):
                continue
            m = re.match(r"^(_\d+) = Atomic::<usize>::(\w+)\((.*)\) -> \[return: (bb\d+)(?:, unwind [^\]]*)?\];$", st)
            if m:
                dst, op, args, ret = m.group(1), m.group(2), [a.strip() for a in m.group(3).split(",")], m.group(4)
                if op not in ATOMIC_OPS:
                    raise Unsupported("atomic operation %s (only %s are modelled)" % (op, sorted(ATOMIC_OPS)))
                ref = re.match(r"^(?:copy|move) (_\d+)$", args[0])
                if not ref or ref.group(1) not in cursor_refs:
                    raise Unsupported("atomic operation on something other than the cursor field")
                val = operand(args[1]) if op != "load" else None
                steps.append(("atomic", op, val, dst))
                cur = ret
                break
            m = re.match(r"^(_\d+) = Vec::<T>::len\((?:copy|move) (_\d+)\) -> \[return: (bb\d+)(?:, unwind [^\]]*)?\];$", st)
            if m:
                if m.group(2) not in vec_refs:
                    raise Unsupported("len() of an unknown vector")
                steps.append(("pure", m.group(1), lambda env: "n"))
                cur = m.group(3)
                break
            m = re.match(r"^(_\d+) = <Vec<T> as Index<usize>>::index\((?:copy|move) (_\d+), (.*)\) -> \[return: (bb\d+)(?:, unwind [^\]]*)?\];$", st)
            if m:
                if m.group(2) not in vec_refs:
                    raise Unsupported("index into an unknown vector")
                steps.append(("pick", operand(m.group(3))))
                picked = True
                cur = m.group(4)
                break
            m = re.match(r"^assert\((!?)(?:copy|move) (.+?), .*\) -> \[success: (bb\d+)(?:, unwind [^\]]*)?\];$", st)
            if m:
                neg, tok, ret = m.group(1), m.group(2), m.group(3)
                f = operand("copy " + tok)
                steps.append(("check", (lambda env, f=f: "(not %s)" % f(env)) if neg else f, st[:60]))
                cur = ret
                break
            m = re.match(r"^(_\d+) = (\w+)\((.+), (.+)\);$", st)
            if m and (m.group(2) in BIN or m.group(2) in CMP or m.group(2).endswith("WithOverflow")):
                dst, op, a, b = m.group(1), m.group(2), operand(m.group(3)), operand(m.group(4))
                if op in BIN:
                    steps.append(("pure", dst, lambda env, op=op, a=a, b=b: "(%s %s %s)" % (BIN[op], a(env), b(env))))
                elif op in CMP:
                    steps.append(("pure", dst, lambda env, op=op, a=a, b=b: "(%s %s %s)" % (CMP[op], a(env), b(env))))
                else:
                    base = op[:-len("WithOverflow")]
                    if base not in ("Add", "Sub", "Mul"):
                        raise Unsupported(op)
                    steps.append(("pure", dst + ".0", lambda env, base=base, a=a, b=b: "(%s %s %s)" % (BIN[base], a(env), b(env))))
                    ov = {"Add": "(bvult (bvadd %s %s) %s)", "Sub": "(bvult %s %s)", "Mul": "(bvumul_noovfl %s %s)"}[base]
                    if base == "Add":
                        steps.append(("pure", dst + ".1", lambda env, a=a, b=b: "(bvult (bvadd %s %s) %s)" % (a(env), b(env), a(env))))
                    elif base == "Sub":
                        steps.append(("pure", dst + ".1", lambda env, a=a, b=b: "(bvult %s %s)" % (a(env), b(env))))
                    else:
                        raise Unsupported("MulWithOverflow")
                continue
            m = re.match(r"^(_\d+) = ((?:copy|move) .+|const \d+_usize);$", st)
            if m:
                f = operand(m.group(2))
                steps.append(("pure", m.group(1), f))
                continue
            m = re.match(r"^(_\d+) = Not\((.+)\);$", st)
            if m:
                f = operand(m.group(2))
                steps.append(("pure", m.group(1), lambda env, f=f: "(not %s)" % f(env)))
                continue
            raise Unsupported("statement: " + st)
        else:
            raise Unsupported("block %s falls off the end" % cur)


def solve(script, solver):
    cmd = {"z3": ["z3", "-in", "-smt2"], "cvc5": ["cvc5", "--lang", "smt2", "--produce-models"]}[solver]
    t0 = time.time()
    try:
        p = subprocess.run(cmd, input=script, capture_output=True, text=True, timeout=180)
    except subprocess.TimeoutExpired:
        return "timeout", time.time() - t0
    return (p.stdout + p.stderr).strip(), time.time() - t0


def build(steps, threads, calls, n, sequential=False):
    """SMT script for `threads` threads doing `calls` calls each over n backends."""
    atomics_per_call = sum(1 for s in steps if s[0] == "atomic")
    if atomics_per_call == 0:
        raise Unsupported("no atomic operation on the cursor in next()")
    per_thread = atomics_per_call * calls
    L = per_thread * threads
    out = ["(set-logic ALL)", "(declare-const n (_ BitVec 64))", "(assert (= n %s))" % bv(n),
           # the cursor starts where AtomicCycle::new puts it: at zero (an arbitrary start value is
           # not a reachable state of designs that keep the cursor below n)
           "(declare-const c0 (_ BitVec 64))", "(assert (= c0 (_ bv0 64)))"]
    for p in range(L):
        out.append("(declare-const s%d Int)" % p)
        out.append("(assert (and (>= s%d 0) (< s%d %d)))" % (p, p, threads))
    for t in range(threads):
        out.append("(assert (= %d (+ %s)))" % (per_thread, " ".join("(ite (= s%d %d) 1 0)" % (p, t) for p in range(L))))
    if sequential:
        for p in range(L):
            out.append("(assert (= s%d %d))" % (p, p // per_thread))
    # cursor value before each position
    for p in range(L + 1):
        out.append("(declare-const c%d_ (_ BitVec 64))" % p)
    out.append("(assert (= c0_ c0))")

    def cnt(t, p):
        return "(+ 0 %s)" % " ".join("(ite (= s%d %d) 1 0)" % (q, t) for q in range(p)) if p else "0"

    bad = []
    picks = []
    # per thread: symbolic execution of calls; atomic step j of thread t happens at the position p
    # with s_p == t and cnt(t,p) == j; its observed value is a fresh variable tied to c_p.
    newval_terms = {p: [] for p in range(L)}
    for t in range(threads):
        j = 0
        for k in range(calls):
            env = {}
            for st in steps:
                if st[0] == "pure":
                    env[st[1]] = st[2](env)
                elif st[0] == "check":
                    bad.append("(not %s)" % st[1](env))
                elif st[0] == "pick":
                    idx = st[1](env)
                    name = "pick_%d_%d" % (t, k)
                    out.append("(declare-const %s (_ BitVec 64))" % name)
                    out.append("(assert (= %s %s))" % (name, idx))
                    bad.append("(bvuge %s n)" % name)
                    picks.append(name)
                elif st[0] == "atomic":
                    op, valf, dst = st[1], st[2], st[3]
                    old = "old_%d_%d" % (t, j)
                    out.append("(declare-const %s (_ BitVec 64))" % old)
                    env[dst] = old
                    v = valf(env) if valf else None
                    for p in range(L):
                        cond = "(and (= s%d %d) (= %s %d))" % (p, t, cnt(t, p), j)
                        out.append("(assert (=> %s (= %s c%d_)))" % (cond, old, p))
                        new = {"load": "c%d_" % p, "store": v, "swap": v, "fetch_add": "(bvadd c%d_ %s)" % (p, v),
                               "fetch_sub": "(bvsub c%d_ %s)" % (p, v), "fetch_and": "(bvand c%d_ %s)" % (p, v),
                               "fetch_or": "(bvor c%d_ %s)" % (p, v), "fetch_xor": "(bvxor c%d_ %s)" % (p, v)}[op]
                        newval_terms[p].append((cond, new))
                    j += 1
    for p in range(L):
        term = "c%d_" % p
        for cond, new in newval_terms[p]:
            term = "(ite %s %s %s)" % (cond, new, term)
        out.append("(assert (= c%d_ %s))" % (p + 1, term))
    # balance: count per backend
    for b in range(n):
        out.append("(define-fun cnt%d () Int (+ 0 %s))" % (b, " ".join("(ite (= %s %s) 1 0)" % (pk, bv(b)) for pk in picks)))
    for a in range(n):
        for b in range(n):
            if a != b:
                bad.append("(> cnt%d (+ cnt%d 1))" % (a, b))
    return "\n".join(out), bad, picks, L


def check_round_robin(mir, log=print, bounds=((2, 2, 2), (2, 2, 3), (3, 1, 2), (3, 1, 3))):
    text = find_next_fn(mir)
    steps = parse_call_template(text)
    ops = [s[1] for s in steps if s[0] == "atomic"]
    rec = {"function": "tarpc::client::stub::load_balance::round_robin::cycle::State::<T>::next", "atomic_operations_per_call": ops, "queries": []}
    results = []
    for threads, calls, n in bounds:
        base, bad, picks, L = build(steps, threads, calls, n)
        script = base + "\n(assert (or %s))\n(check-sat)\n(get-value (%s %s))\n" % (" ".join(bad), " ".join("s%d" % p for p in range(L)), " ".join(picks))
        verdicts, tsum = {}, 0.0
        for solver in ("z3", "cvc5"):
            o, dt = solve(script, solver)
            tsum += dt
            first = o.splitlines()[0] if o else ""
            verdicts[solver] = (first if first in ("sat", "unsat") else "error", o)
        agree = verdicts["z3"][0] == verdicts["cvc5"][0]
        verdict = verdicts["z3"][0] if agree else "disagree"
        sched = None
        if verdict == "sat":
            sched = [int(x) for x in re.findall(r"\(s\d+ (\d+)\)", verdicts["z3"][1])]
        q = {"threads": threads, "calls_per_thread": calls, "backends": n, "schedule_positions": L, "verdict": verdict,
             "z3": verdicts["z3"][0], "cvc5": verdicts["cvc5"][0], "counterexample_schedule": sched, "solver_time_s": round(tsum, 3)}
        rec["queries"].append(q)
        log("    smt-conc threads=%d calls=%d n=%d positions=%d  z3=%-5s cvc5=%-5s %s" % (threads, calls, n, L, verdicts["z3"][0], verdicts["cvc5"][0],
                                                                                        ("schedule=%s" % sched) if sched else ""))
        results.append(q)
    # sequential picks for translator validation (2 threads x 2 calls, n = 3, cursor starting at 0)
    base, bad, picks, L = build(steps, 2, 2, 3, sequential=True)
    script = base + "\n(check-sat)\n(get-value (%s))\n" % " ".join(picks)
    o, _ = solve(script, "z3")
    vals = [int(h, 16) if h else int(d) for h, d in re.findall(r"\(pick_\d+_\d+ (?:#x([0-9a-f]+)|\(_ bv(\d+) 64\))\)", o)]
    rec["sequential_model_picks"] = vals
    return rec, results
