#!/usr/bin/env python3
"""MIR -> SMT-LIB2 engine (second, independent engine for the C15 error-kind table).

Pipeline, regenerated from the scratch copy of /repo on every run:
  1. `cargo +nightly rustc ... -Zunpretty=mir` dumps tarpc's MIR (pre-monomorphisation).
  2. A small parser + path-merging symbolic executor handles the MIR subset that loop-free integer
     table functions use: `_x = const N_ty`, `_x = discriminant(P)`, `_x = Enum::Variant`,
     copy/move/&, field projections of ControlFlow/Result, `switchInt`, `goto`, `return`,
     `unreachable`, and calls, which are summarised:
        <T as Serialize>::serialize::<S>(&v, s)      -> emits (T, v) on the wire, returns Ok
        <T as Deserialize>::deserialize::<D>(d)      -> reads a T from the wire (may fail)
        <Result<..> as Try>::branch / from_residual   -> the `?` operator
     Anything else makes the translation fail loudly (inconclusive), never silently pass.
  3. The two functions are composed through a wire function per shipped codec configuration
     (bincode varint+zig-zag = tokio_serde Bincode, bincode fixed width, JSON numbers), all in
     64-bit bit-vector arithmetic, and the negated properties are sent to z3 AND cvc5
     (SMT-LIB text on stdin; an `(error` line or disagreement = inconclusive).
  4. Translator validation: for every stable io::ErrorKind the SMT model is evaluated at that
     concrete kind and compared with what the REAL functions produce under the real codecs
     (replay/tests/errkind_table_dump.rs prints the table).
"""
import os
import re
import subprocess
import time

SIGNED = {"i8": 8, "i16": 16, "i32": 32, "i64": 64, "isize": 64}
UNSIGNED = {"u8": 8, "u16": 16, "u32": 32, "u64": 64, "usize": 64}


class Unsupported(Exception):
    pass


def fn_text(mir, name):
    m = re.search(r"^fn %s\(.*?\{\n(.*?)^\}\n" % re.escape(name), mir, re.S | re.M)
    if not m:
        raise Unsupported("function %s not found in the MIR dump" % name)
    return m.group(0)


def parse_blocks(text):
    blocks = {}
    for m in re.finditer(r"^    (bb\d+)(?: \(cleanup\))?: \{\n(.*?)^    \}", text, re.S | re.M):
        stmts = [l.strip() for l in m.group(2).splitlines() if l.strip()]
        blocks[m.group(1)] = stmts
    if not blocks:
        raise Unsupported("no basic blocks parsed")
    return blocks


def bv(n, w=64):
    return "(_ bv%d %d)" % (n % (1 << w), w)


class SymExec:
    """Executes one function symbolically, merging paths into ite-expressions.
    Values are tuples:  ('int', smt_expr_64, type)  |  ('enum', smt_expr_64 (discriminant / variant id))
                      |  ('ref', value) | ('res', ok_cond, value) | ('cf', continue_cond, value)"""

    def __init__(self, blocks, variant_id):
        self.blocks = blocks
        self.variant_id = variant_id      # "ErrorKind::Name" -> int
        self.emitted = []                 # (path_cond, type, value_expr) for serialize calls
        self.reads = []                   # (type, var_name, ok_var) for deserialize calls
        self.returns = []                 # (path_cond, value)
        self.unreachable = []             # path conds reaching `unreachable`
        self.steps = 0

    def run(self, env):
        self._block("bb0", "true", dict(env))

    def _val(self, env, expr):
        expr = expr.strip()
        m = re.match(r"^(?:copy|move) (.+)$", expr)
        if m:
            return self._place(env, m.group(1))
        m = re.match(r"^const (-?\d+)_(\w+)$", expr)
        if m:
            ty = m.group(2)
            if ty not in SIGNED and ty not in UNSIGNED:
                raise Unsupported("constant of type " + ty)
            return ("int", bv(int(m.group(1))), ty)
        m = re.match(r"^&(?:mut )?(_\d+)$", expr)
        if m:
            return ("ref", m.group(1))
        m = re.match(r"^discriminant\((.+)\)$", expr)
        if m:
            v = self._place(env, m.group(1))
            if v[0] == "enum":
                return ("int", v[1], "isize")
            if v[0] == "cf":
                return ("int", "(ite %s %s %s)" % (v[1], bv(0), bv(1)), "isize")
            raise Unsupported("discriminant of " + v[0])
        m = re.match(r"^(?:std::io::)?(ErrorKind::\w+)$", expr)
        if m:
            if m.group(1) not in self.variant_id:
                raise Unsupported("unknown variant " + m.group(1))
            return ("enum", bv(self.variant_id[m.group(1)]))
        m = re.match(r"^Result::<.*>::Ok\((?:move|copy) (_\d+)\)$", expr)
        if m:
            return ("res", "true", env[m.group(1)])
        raise Unsupported("rvalue: " + expr)

    def _place(self, env, p):
        p = p.strip()
        m = re.match(r"^\(\*(_\d+)\)$", p)
        if m:
            r = env[m.group(1)]
            if r[0] == "ref":
                return env[r[1]]
            if r[0] == "refval":
                return r[1]
            raise Unsupported("deref of " + r[0])
        m = re.match(r"^\(\((_\d+) as (Continue|Break)\)\.0: .*\)$", p)
        if m:
            v = env[m.group(1)]
            if v[0] != "cf":
                raise Unsupported("projection of non-ControlFlow")
            return v[2] if m.group(2) == "Continue" else ("residual",)
        if re.match(r"^_\d+$", p):
            if p not in env:
                raise Unsupported("use of unassigned local " + p)
            return env[p]
        raise Unsupported("place: " + p)

    def _block(self, name, cond, env):
        self.steps += 1
        if self.steps > 2000:
            raise Unsupported("too many steps (loop?)")
        for st in self.blocks[name]:
            if st.startswith(("StorageLive", "StorageDead", "nop", "FakeRead", "debug ")):
                continue
            m = re.match(r"^goto -> (bb\d+);$", st)
            if m:
                return self._block(m.group(1), cond, env)
            if st == "return;":
                self.returns.append((cond, env.get("_0")))
                return
            if st == "unreachable;":
                self.unreachable.append(cond)
                return
            m = re.match(r"^switchInt\((?:move|copy) (_\d+)\) -> \[(.*)\];$", st)
            if m:
                v = env[m.group(1)]
                if v[0] != "int":
                    raise Unsupported("switchInt on " + v[0])
                arms = [a.strip() for a in m.group(2).split(",")]
                taken = []
                for a in arms:
                    k, tgt = [x.strip() for x in a.split(":")]
                    if k == "otherwise":
                        c = "(and %s)" % " ".join(["true"] + ["(not (= %s %s))" % (v[1], bv(int(t))) for t in taken])
                    else:
                        taken.append(k)
                        c = "(= %s %s)" % (v[1], bv(int(k)))
                    self._block(tgt, "(and %s %s)" % (cond, c), dict(env))
                return
            m = re.match(r"^(_\d+) = (.+?)\((.*)\) -> \[return: (bb\d+)(?:, unwind .*)?\];$", st)
            if m:
                dst, callee, args, ret = m.group(1), m.group(2), m.group(3), m.group(4)
                env[dst] = self._call(env, cond, callee, args)
                return self._block(ret, cond, env)
            m = re.match(r"^(_\d+) = (.+);$", st)
            if m:
                env[m.group(1)] = self._val(env, m.group(2))
                continue
            raise Unsupported("statement: " + st)
        raise Unsupported("block %s falls off the end" % name)

    def _call(self, env, cond, callee, args):
        a = [x.strip() for x in args.split(",")]
        m = re.match(r"^<(\w+) as (?:_::_serde::)?Serialize>::serialize::<\w+>$", callee)
        if m:
            ty = m.group(1)
            v = self._val(env, a[0])
            if v[0] == "ref":
                v = env[v[1]]
            if v[0] != "int":
                raise Unsupported("serialize of " + v[0])
            if v[2] != ty:
                raise Unsupported("serialize::<%s> of a %s value" % (ty, v[2]))
            self.emitted.append((cond, ty, v[1]))
            return ("res", "true", ("unit",))
        m = re.match(r"^<(\w+) as (?:_::_serde::)?Deserialize<'_>>::deserialize::<\w+>$", callee)
        if m:
            ty = m.group(1)
            var, ok = "in%d" % len(self.reads), "inok%d" % len(self.reads)
            self.reads.append((ty, var, ok))
            return ("res", ok, ("int", var, ty))
        if re.match(r"^<Result<.*> as Try>::branch$", callee):
            v = self._val(env, a[0])
            if v[0] != "res":
                raise Unsupported("Try::branch on " + v[0])
            return ("cf", v[1], v[2])
        if "FromResidual" in callee and callee.endswith("from_residual"):
            return ("res", "false", ("unit",))
        raise Unsupported("call to " + callee)


# ---------------------------------------------------------------------------- codec wire functions
PRELUDE = """
(set-logic ALL)
(define-fun zigzag ((v (_ BitVec 64))) (_ BitVec 64)
  (ite (bvslt v (_ bv0 64)) (bvadd (bvmul (bvnot v) (_ bv2 64)) (_ bv1 64)) (bvmul v (_ bv2 64))))
(define-fun sext32 ((v (_ BitVec 64))) (_ BitVec 64) ((_ sign_extend 32) ((_ extract 31 0) v)))
(define-fun zext32 ((v (_ BitVec 64))) (_ BitVec 64) ((_ zero_extend 32) ((_ extract 31 0) v)))
"""


def norm(ty, expr):
    """The written constant as a 64-bit value of its own type (sign- or zero-extended)."""
    w = SIGNED.get(ty) or UNSIGNED[ty]
    if w == 64:
        return expr
    ext = "sign_extend" if ty in SIGNED else "zero_extend"
    return "((_ %s %d) ((_ extract %d 0) %s))" % (ext, 64 - w, w - 1, expr)


def wire_read_u32(codec, wty, wexpr):
    """(ok, value) an unsigned 32-bit read sees when a value `wexpr` of type `wty` was written."""
    v = norm(wty, wexpr)
    signed = wty in SIGNED
    w = SIGNED.get(wty) or UNSIGNED[wty]
    if codec == "varint":
        enc = "(zigzag %s)" % v if signed else v
        return "(bvule %s (_ bv4294967295 64))" % enc, enc
    if codec == "fixint":
        return ("true" if w == 32 else "false"), "(zext32 %s)" % v
    if codec == "json":
        ok = "(and %s (bvule %s (_ bv4294967295 64)))" % ("(bvsge %s (_ bv0 64))" % v if signed else "true", v)
        return ok, v
    raise ValueError(codec)


def solve(script, solver):
    cmd = {"z3": ["z3", "-in", "-smt2"], "cvc5": ["cvc5", "--lang", "smt2", "--produce-models", "--incremental"]}[solver]
    t0 = time.time()
    p = subprocess.run(cmd, input=script, capture_output=True, text=True, timeout=120)
    out = (p.stdout + p.stderr).strip()
    return out, time.time() - t0


def build_and_check(mir, variant_id, portable_names, log=print):
    """Returns dict(results=[...], translation={...}).  Raises Unsupported on anything outside the subset."""
    ser = SymExec(parse_blocks(fn_text(mir, "serialize_io_error_kind_as_u32")), variant_id)
    ser.run({"_1": ("refval", ("enum", "k")), "_2": ("opaque",)})
    de = SymExec(parse_blocks(fn_text(mir, "deserialize_io_error_kind_from_u32")), variant_id)
    de.run({"_1": ("opaque",)})
    if len(de.reads) != 1:
        raise Unsupported("expected exactly one wire read in the deserializer, saw %d" % len(de.reads))
    rty, rvar, rok = de.reads[0]
    if rty != "u32":
        raise Unsupported("reader reads %s, the wire functions model a u32 read" % rty)
    if not ser.emitted:
        raise Unsupported("serializer emits nothing")
    wtypes = sorted({t for _, t, _ in ser.emitted})
    # result of the reader as an ite over its return paths: (ok?, kind)
    kind_expr, ok_expr = bv(255), "false"
    for cond, val in de.returns:
        if val is None or val[0] != "res":
            raise Unsupported("reader returns " + str(val))
        if val[1] == "true":
            kind_expr = "(ite %s %s %s)" % (cond, val[2][1], kind_expr)
            ok_expr = "(or %s %s)" % (ok_expr, cond)
    unreachable = "(or false %s)" % " ".join(de.unreachable) if de.unreachable else "false"
    portable = [variant_id["ErrorKind::" + n] for n in portable_names]
    other = variant_id["ErrorKind::Other"]
    is_portable = "(or %s)" % " ".join("(= k %s)" % bv(d) for d in portable)
    results = []
    for codec in ("varint", "fixint", "json"):
        # the value/ok seen by the reader, as an ite over the writer's emit paths
        seen_v, seen_ok, wrote = bv(0), "false", "false"
        for cond, ty, ex in ser.emitted:
            ok, v = wire_read_u32(codec, ty, ex)
            seen_v = "(ite %s %s %s)" % (cond, v, seen_v)
            seen_ok = "(ite %s %s %s)" % (cond, ok, seen_ok)
            wrote = "(or %s %s)" % (wrote, cond)
        base = PRELUDE + "(declare-const k (_ BitVec 64))\n(declare-const %s (_ BitVec 64))\n(declare-const %s Bool)\n" % (rvar, rok)
        base += "(assert (bvult k (_ bv256 64)))\n"           # ErrorKind is a fieldless enum: discriminant < 256
        base += "(assert (= %s %s))\n(assert (= %s %s))\n" % (rvar, seen_v, rok, seen_ok)
        base += "(define-fun got () (_ BitVec 64) %s)\n(define-fun gotok () Bool %s)\n" % (kind_expr, ok_expr)
        queries = [
            ("portable kinds round-trip exactly", "(assert %s)\n(assert (not (and %s gotok (= got k))))" % (is_portable, wrote)),
            ("other kinds degrade to Other", "(assert (not %s))\n(assert (not (and %s gotok (= got %s))))" % (is_portable, wrote, bv(other))),
            ("reader never reaches unreachable", "(assert %s)" % unreachable),
        ]
        for qname, q in queries:
            script = base + q + "\n(check-sat)\n(get-value (k %s got))\n" % rvar
            verdicts = {}
            tsum = 0.0
            for solver in ("z3", "cvc5"):
                out, dt = solve(script, solver)
                tsum += dt
                first = out.splitlines()[0] if out else ""
                if "(error" in out and first != "unsat":
                    verdicts[solver] = ("error" if first not in ("sat", "unsat") else first, out)
                else:
                    verdicts[solver] = (first, out)
            agree = verdicts["z3"][0] == verdicts["cvc5"][0]
            verdict = verdicts["z3"][0] if agree else "disagree"
            model = None
            if verdict == "sat":
                mm = re.search(r"\(k #x([0-9a-f]+)\)|\(k \(_ bv(\d+) 64\)\)", verdicts["z3"][1])
                if mm:
                    model = int(mm.group(1), 16) if mm.group(1) else int(mm.group(2))
            results.append({"codec": codec, "query": qname, "verdict": verdict, "z3": verdicts["z3"][0], "cvc5": verdicts["cvc5"][0],
                            "counterexample_kind_discriminant": model, "solver_time_s": round(tsum, 3)})
            log("    smt %-7s %-38s z3=%-6s cvc5=%-6s %s" % (codec, qname, verdicts["z3"][0], verdicts["cvc5"][0],
                                                              ("k=%s" % model) if model is not None else ""))
    # concrete evaluation table for translator validation: for each kind, what the model says per codec
    table = {}
    for codec in ("varint", "fixint", "json"):
        seen_v, seen_ok = bv(0), "false"
        for cond, ty, ex in ser.emitted:
            ok, v = wire_read_u32(codec, ty, ex)
            seen_v = "(ite %s %s %s)" % (cond, v, seen_v)
            seen_ok = "(ite %s %s %s)" % (cond, ok, seen_ok)
        script = PRELUDE + "(declare-const k (_ BitVec 64))\n(declare-const %s (_ BitVec 64))\n(declare-const %s Bool)\n" % (rvar, rok)
        script += "(assert (= %s %s))\n(assert (= %s %s))\n(define-fun got () (_ BitVec 64) %s)\n(define-fun gotok () Bool %s)\n" % (rvar, seen_v, rok, seen_ok, kind_expr, ok_expr)
        for name, d in sorted(variant_id.items(), key=lambda x: x[1]):
            script += "(push)\n(assert (= k %s))\n(check-sat)\n(get-value (got gotok))\n(pop)\n" % bv(d)
        out, _ = solve(script, "z3")
        vals = re.findall(r"\(\(got (?:#x([0-9a-f]+)|\(_ bv(\d+) 64\))\)\s*\(gotok (true|false)\)\)", out)
        names = [n for n, _ in sorted(variant_id.items(), key=lambda x: x[1])]
        if len(vals) != len(names):
            raise Unsupported("could not evaluate the model table (%d of %d)" % (len(vals), len(names)))
        inv = {v: k for k, v in variant_id.items()}
        for n, (hx, dec, ok) in zip(names, vals):
            g = int(hx, 16) if hx else int(dec)
            table.setdefault(codec, {})[n.split("::")[1]] = inv.get(g, "?%d" % g).split("::")[-1] if ok == "true" else "ERR"
    return {"results": results, "model_table": table, "written_types": wtypes, "read_type": rty,
            "writer_paths": len(ser.emitted), "reader_paths": len(de.returns)}
