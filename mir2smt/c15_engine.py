"""Driver of the MIR->SMT engine for C15's error-kind table (see mir2smt.py)."""
import os
import re
import sys
import time

sys.path.insert(0, os.path.join(os.path.dirname(os.path.abspath(__file__)), "..", "lib"))
from vlib import run, ENV, log, replay_test, VERIF  # noqa: E402
import mir2smt  # noqa: E402

PORTABLE = ["NotFound", "PermissionDenied", "ConnectionRefused", "ConnectionReset", "ConnectionAborted", "NotConnected",
            "AddrInUse", "AddrNotAvailable", "BrokenPipe", "AlreadyExists", "WouldBlock", "InvalidInput", "InvalidData",
            "TimedOut", "WriteZero", "Interrupted", "Other", "UnexpectedEof"]


def nightly_discriminants(scratch):
    """name -> discriminant on the toolchain that produced the MIR (rustc +nightly)."""
    d = os.path.join(scratch.root, "discr")
    os.makedirs(d, exist_ok=True)
    kinds = open(os.path.join(VERIF, "harness", "wire", "src", "kinds.rs")).read()
    src = kinds + '\nfn main() { for k in KINDS { println!("DISCR {:?} {}", k, k as u8); } }\n'
    open(os.path.join(d, "discr.rs"), "w").write(src)
    rc, out, _ = run(["rustc", "+nightly", "-A", "warnings", "-o", os.path.join(d, "discr"), os.path.join(d, "discr.rs")], cwd=d, timeout=300)
    if rc != 0:
        raise mir2smt.Unsupported("could not compile the discriminant printer with the nightly toolchain: " + out[-300:])
    rc, out, _ = run([os.path.join(d, "discr")], cwd=d, timeout=60)
    return {"ErrorKind::" + m.group(1): int(m.group(2)) for m in re.finditer(r"DISCR (\w+) (\d+)", out)}


def dump_mir(scratch):
    cwd = os.path.join(scratch.repo, "tarpc")
    env = dict(ENV)
    env["CARGO_TARGET_DIR"] = os.path.join(scratch.target, "mir-nightly")
    os.utime(os.path.join(cwd, "src", "lib.rs"), None)
    cmd = ["cargo", "+nightly", "rustc", "--offline", "--lib", "--features", "serde1", "--", "-Zunpretty=mir", "-C", "debug-assertions=off"]
    p = os.path.join(scratch.root, "tarpc.mir")
    import subprocess
    with open(p, "w") as f:
        r = subprocess.run(cmd, cwd=cwd, env=env, stdout=f, stderr=subprocess.PIPE, text=True, timeout=900)
    mir = open(p).read()
    if r.returncode != 0 or "fn serialize_io_error_kind_as_u32" not in mir:
        raise mir2smt.Unsupported("MIR dump failed: " + r.stderr[-400:])
    return mir


def check(scratch):
    """Returns (record, violations, inconclusive)."""
    t0 = time.time()
    rec = {"engine": "MIR (rustc nightly -Zunpretty=mir) -> SMT-LIB2 (QF_BV-style, logic ALL) -> z3 4.8.12 + cvc5 1.0",
           "functions_translated": ["tarpc::util::serde::serialize_io_error_kind_as_u32", "tarpc::util::serde::deserialize_io_error_kind_from_u32"]}
    viol, inc = [], []
    try:
        mir = dump_mir(scratch)
        ids = nightly_discriminants(scratch)
        if len(ids) < 39:
            raise mir2smt.Unsupported("only %d discriminants obtained" % len(ids))
        res = mir2smt.build_and_check(mir, ids, PORTABLE, log=log)
    except mir2smt.Unsupported as e:
        rec["error"] = str(e)
        inc.append(("mir2smt", "translation outside the supported MIR subset or tool failure: %s" % e))
        return rec, viol, inc
    rec.update({k: res[k] for k in ("written_types", "read_type", "writer_paths", "reader_paths")})
    rec["queries"] = res["results"]
    rec["queries_discharged"] = len(res["results"]) * 2
    rec["solver_time_s"] = round(sum(r["solver_time_s"] for r in res["results"]), 3)
    # translator validation against the real functions under the real codecs
    ok, out = replay_test(scratch, "errkind_table_dump", {})
    real = {}
    for m in re.finditer(r"TABLE (\w+) (\w+) (\w+)", out if out else ""):
        real.setdefault(m.group(1), {})[m.group(2)] = m.group(3)
    if not real:
        # replay_test filters lines; run again unfiltered
        env = dict(ENV)
        env["CARGO_TARGET_DIR"] = os.path.join(scratch.target, "replay-native")
        rc, raw, _ = run(["cargo", "test", "--offline", "--test", "errkind_table_dump", "--", "--nocapture"], cwd=os.path.join(scratch.root, "replay"), env=env, timeout=1200)
        for m in re.finditer(r"TABLE (\w+) (\w+) (\w+)", raw):
            real.setdefault(m.group(1), {})[m.group(2)] = m.group(3)
    mismatches = []
    compared = 0
    for codec, tab in res["model_table"].items():
        for kind, got in tab.items():
            if kind in real.get(codec, {}):
                compared += 1
                if real[codec][kind] != got:
                    mismatches.append("%s/%s: model %s, real %s" % (codec, kind, got, real[codec][kind]))
    rec["translation_validation"] = {"compared_with_real_functions_under_real_codecs": compared, "mismatches": mismatches}
    if compared < 3 * 39:
        inc.append(("mir2smt", "translator validation incomplete: %d of %d table cells compared" % (compared, 3 * 39)))
    if mismatches:
        inc.append(("mir2smt", "SMT encoding disagrees with the real functions: %s" % mismatches[:4]))
    inv = {v: k.split("::")[1] for k, v in ids.items()}
    kinds_order = [k.split("::")[1] for k in sorted(ids, key=lambda k: 0)]
    for r in res["results"]:
        if r["verdict"] in ("disagree", "error", "unknown", ""):
            inc.append(("mir2smt", "%s / %s: solvers say z3=%s cvc5=%s" % (r["codec"], r["query"], r["z3"], r["cvc5"])))
        elif r["verdict"] == "sat":
            k = r["counterexample_kind_discriminant"]
            name = inv.get(k)
            r["counterexample_kind"] = name
            # replay through the real codec
            idx = None
            kinds_src = open(os.path.join(VERIF, "harness", "wire", "src", "kinds.rs")).read()
            names = re.findall(r"ErrorKind::(\w+)", kinds_src.split("pub const KINDS")[1])
            if name in names:
                idx = names.index(name)
            test = {"varint": "bincode_codec_round_trips_error_kinds", "json": "json_codec_round_trips_error_kinds"}.get(r["codec"])
            if idx is None or test is None:
                inc.append(("mir2smt", "%s / %s: counterexample k=%s (%s) cannot be replayed through a shipped codec" % (r["codec"], r["query"], k, name)))
                continue
            okr, outr = replay_test(scratch, "errkind_real_codecs", {"VERIF_KIND_INDEX": str(idx)}, [test])
            r["real_codec_replay"] = "reproduced" if not okr else "not reproduced"
            if not okr:
                viol.append({"harness": "mir2smt:%s:%s" % (r["codec"], r["query"]), "failed_checks": ["SMT query sat: " + r["query"]],
                             "values": [str(k)], "native_replay": {"tokio_serde codec": "reproduced"}, "what": "kind %s under %s" % (name, r["codec"]),
                             "replay_output_tail": {"real": outr[-800:]}})
            else:
                inc.append(("mir2smt", "%s / %s: counterexample kind %s does not reproduce through the real codec" % (r["codec"], r["query"], name)))
    rec["wall_s"] = round(time.time() - t0, 1)
    return rec, viol, inc
