#!/usr/bin/env python3
"""Regenerates /verif/MANIFEST.json (kept as a script so the claims live in one reviewable place)."""
import json, os
V = os.path.dirname(os.path.dirname(os.path.abspath(__file__)))
props = [json.loads(l) for l in open(os.path.join(V, "properties.jsonl"))]
R = "a single poll of client::RequestDispatch / Channel::call / server::BaseChannel could not be encoded by Kani/CBMC within 18 GB / 500 s even with tokio mpsc, FnvHashMap and DelayQueue replaced by array models; their in-flight tables alone exceeded 14 GB (DESIGN §1, §4)"
NA = {
 "C01": "response routing is complete_request inside the client dispatch and its in-flight table: " + R,
 "C02": "liveness ('no wake-up is lost') over interleavings of several tasks and real wakers: not expressible as a bounded sequential model-checking query, Kani does not model threads, and " + R,
 "C03": "needs Channel::call's drop guard, the request and cancel queues (tokio mpsc) and pump_write together over interleavings: " + R,
 "C04": "needs BaseChannel::poll_next, Abortable and InFlightRequest::execute in a client->server->client composition: " + R,
 "C08": "start_request (Span, OpenTelemetry context, hash table) and the response fan-in of BaseChannel/Requests: " + R,
 "C09": "fault injection at the k-th transport operation requires running the dispatch / channel state machines for k operations: " + R,
 "C10": "shutdown ordering of the same two state machines: " + R,
 "C11": "reclamation of the in-flight tables and timers (table harness: 14 GB): " + R,
 "C14": "the sequence of Sink/Stream calls both state machines make on a transport: " + R,
 "C18": "trace contexts travel through call -> dispatch -> start_request; the one leaf (trace::Context::new_child) draws from rand::thread_rng(), i.e. the OS RNG; " + R,
}

def chk(pid, text, note, tech, ref):
    return {"property_id": pid, "quick_cmd": "python3 run.py %s --tier quick" % pid, "thorough_cmd": "python3 run.py %s --tier thorough" % pid,
            "evidence_file": "/verif/evidence/%s.json" % pid, "replay_cmd_template": "python3 run.py %s --replay {path}" % pid, "engine": "kani-cbmc",
            "level_claimed": {"category": "model_checking", "text": text, "design_ref": ref}, "level_note": note, "technique": tech}

REPLAY = "every failing harness is re-run with Kani concrete playback, the solver's values are replayed NATIVELY on the same harness body (dev + release, interposed clock) and, where the property is about codecs or endpoints, through the real tokio_serde codecs / real BaseChannel + client dispatch under tokio (/verif/replay); only a reproduced counterexample is a VIOLATION, anything else is exit 2"
checks = [
 chk("C05", "Bounded symbolic model checking (Kani/CBMC) of the deadline-arming arithmetic only: util::TimeUntil and the timeout expression the client hands to its timer queue, for every pair of Instants, every queueing delay. Never-early / exact-for-spans<=365d / zero-when-expired. That the dispatch then completes the call with DeadlineExceeded is NOT decided (dispatch out of CBMC's reach).",
     "in-crate overlay on a scratch copy; arming expression extracted textually each run; Instant::now stubbed; " + REPLAY, "Kani/CBMC over tarpc's own time_until + extracted arming expression, symbolic clock; native replay", "DESIGN §3 C05"),
 chk("C06", "Bounded symbolic model checking (Kani/CBMC) of the server's deadline-arming arithmetic only (same scope as C05 on the client): util::TimeUntil and the timeout expression start_request hands to the timer queue, for every pair of Instants and every registration delay: never late, exact for spans <= 365 d, zero when expired on arrival. That expiry then aborts the handler, that nothing is transmitted afterwards and that other requests are unaffected is NOT decided (server channel out of CBMC's reach).",
     "in-crate overlay on a scratch copy; arming expression extracted textually each run; Instant::now stubbed; " + REPLAY, "Kani/CBMC over tarpc's own time_until + extracted server arming expression, symbolic clock; native replay", "DESIGN §3 C06"),
 chk("C07", "Bounded symbolic model checking (Kani/CBMC) of tarpc's real (de)serialisation of Context/Request through a typed wire model: for every clock reading, deadline, transit and processing delay (u32 s + ns), 1 and 3 hops, three codec conventions: never earlier, later by at most transit, expired arrives as now, omitted deadline = now+10 s.",
     "harness-side serde format (wire model) whose integer conventions are validated natively against real bincode/serde_json each run; Instant::now stubbed; handler hand-off and context::current() outside; " + REPLAY, "Kani/CBMC over the derived serde impls + absolute_to_relative_time with a symbolic clock; native replay", "DESIGN §3 C07"),
 chk("C12", "Bounded symbolic model checking (Kani/CBMC) of the real MaxRequests limiter (poll_next + Sink forwarding) as an inductive step: ONE poll from each of six enumerated states (limit 0/1/2 x in-flight count), with what the wrapped channel yields (request with any id / Pending / end / error, up to 3 events) and its sink readiness symbolic: a request reaches the application only while fewer than L are in flight; every refused request gets exactly one WouldBlock response with its own id, written only to a ready sink, and is not handed over; nothing is refused below L. The REAL BaseChannel's in-flight counting is NOT decided: the wrapped channel is a harness model of the Channel contract.",
     "wrapped channel = harness model (count rises when a request is yielded, falls when a response is written); stub alloc::sync::Arc::drop_slow -> no-op (leak) so that dropping a refused TrackedRequest's tracing::Span does not explode; tokio mpsc behind RequestCancellation replaced under Kani by a waker-less model; tracing compiled out; " + REPLAY,
     "Kani/CBMC one-step (inductive) symbolic execution of the limiter against a contract-model channel; native replay", "DESIGN §3 C12"),
 chk("C13", "Bounded symbolic model checking (Kani/CBMC) of the real MaxChannelsPerKey state machine (poll_next, admission by strong count, close notifications, Tracker drop) in directed scenarios with symbolic keys: stale close notification racing a same-key arrival, shedding only the key at its limit, limit 2; thorough adds longer scenarios and 3 solver-chosen operations. Sequences longer than 4-5 operations, > 2 keys and wake-ups are NOT decided.",
     "tokio mpsc and FnvHashMap are replaced UNDER KANI ONLY by array-backed contract models (FIFO that never blocks; map with entry/insert/get/remove; capacity 2, overflow = assertion failure) injected into a scratch copy; tracing compiled out; the harness polls by hand; every counterexample is replayed natively against the REAL tokio mpsc and hash map; " + REPLAY,
     "Kani/CBMC bounded symbolic execution of the channel-filter state machine with environment models; native replay against the real environment", "DESIGN §3 C13"),
 chk("C15", "Bounded symbolic model checking (Kani/CBMC) of the wire schema: every message variant with symbolic ids/bodies/128-bit trace ids round-trips under varint, fixed-width and self-describing conventions; sequences of 2-3 messages stay ordered and complete; all 39 stable io::ErrorKinds x 3 codec conventions (18 portable exact, others -> Other); any u32 code decodes; optional fields default. Framing under fragmentation, end-of-stream and the in-memory transports are NOT decided.",
     "wire model as in C07 (validated natively); payload strings empty, bodies u32/[u8;8]; error-kind counterexamples are additionally replayed through the real tokio_serde Bincode/Json codecs; " + REPLAY, "Kani/CBMC differential round-trip harnesses over the derived serde impls, error-kind table and transport forwarding; MIR->SMT (z3+cvc5) second engine on the error-kind table; real-codec replay", "DESIGN §3 C15"),
 chk("C16", "Bounded symbolic model checking (Kani/CBMC) of every piece of arithmetic a peer- or caller-chosen deadline reaches: decode (any u64 s / u32 ns), timer arming on both ends against DelayQueue::insert's precondition, and the rpc.deadline span field against humantime's Display precondition. Malformed frames / byte-level decoders / floods are NOT decided.",
     "environment contracts of tokio-util's DelayQueue (constants read from the pinned source) and humantime's Display are validated natively each run; queue age <= 30 y, wheel lag <= 400 d, clock <= 2^40 s; counterexamples are replayed against the real BaseChannel (bytes over a duplex + LengthDelimited + Bincode) and the real client dispatch under tokio, with and without a fmt subscriber; " + REPLAY, "Kani/CBMC panic-freedom + environment-precondition harnesses over decode/arming/span-field code; real-endpoint replay", "DESIGN §3 C16"),
 chk("C17", "Bounded symbolic model checking (Kani/CBMC) over the code the real proc macro generates for 7 enumerated service definitions / 26 methods (incl. round trips of the generated enums through a positional and a name-tagged wire model): every method choice, argument tuple and context is decided by the solver; reserved-name rejection is decided by rustc. The quantifier over programs is NOT reached (the family is enumerated).",
     "harness Stub that calls the generated Serve::serve directly (no transport); implementors are harness code; " + REPLAY, "Kani/CBMC bounded symbolic execution of the macro-generated glue; native replay", "DESIGN §3 C17"),
 chk("C19", "Bounded symbolic model checking (Kani/CBMC) of tarpc's hook combinators against a straight-line reference model: every fail position, context edit, result rewrite and nesting for chains of length 0-3 (13 compositions).",
     "hooks/handler are ready futures polled once; ServerError detail strings empty; " + REPLAY, "Kani/CBMC differential harnesses (real combinators vs reference model); native replay", "DESIGN §3 C19"),
 chk("C20", "Bounded symbolic model checking (Kani/CBMC) of RoundRobin/AtomicCycle, ConsistentHash and Retry: all request values, a 128-bit-seeded hasher family, every retry policy over <=5 attempts, and every poll order of 4 concurrent round-robin calls through two handles; backend counts 1-4 enumerated; plus, from the MIR of the cursor update, every sequentially consistent interleaving of 2-3 threads x 1-2 calls over 2-3 backends (z3+cvc5).",
     "Kani executes atomics sequentially; the thread-level claim comes from the MIR->SMT concurrency engine (sequential consistency, cursor starting at 0, translator validated against the real stub's sequential picks; a sat schedule is confirmed by a stress run with OS threads); backends/hasher/policy are harness code; Retry explored with Ok results and ready backends only; " + REPLAY, "Kani/CBMC bounded symbolic execution with a symbolic poll schedule; MIR->SMT (z3+cvc5) with the thread schedule as solver variables for the round-robin cursor; native / stress replay", "DESIGN §3 C20"),
]
claimed = {c["property_id"] for c in checks}
na = [{"property_id": p["id"], "reason": NA[p["id"]]} for p in props if p["id"] not in claimed]
man = {"version": 1,
 "setup_cmd": "python3 setup.py",
 "hooks": {"guard": "none in /repo: in-crate harnesses live in /verif/overlay and are appended (cfg(kani) / cfg(verif_replay)) to a scratch COPY of /repo at check time",
           "enable": "each check copies /repo's working tree to /tmp/verif-scratch/<id>/repo, builds the harness crates (path dependency on the copy) or injects the overlay into the copy, and deletes the copy afterwards",
           "baseline_off_cmd": "cd /repo && cargo test --workspace --no-fail-fast --offline", "source_commits": [], "add_only": True},
 "engines": [{"name": "mir2smt-conc", "path": "/verif/mir2smt/conc.py", "serves_properties": ["C20"],
              "kind_free_text": "rustc nightly MIR of the round-robin cursor update -> SMT-LIB2 with Int schedule variables (which thread performs each atomic step) and a bit-vector cursor -> z3 4.8.12 and cvc5 1.0 (must agree)"},
             {"name": "mir2smt", "path": "/verif/mir2smt/mir2smt.py", "serves_properties": ["C15"],
              "kind_free_text": "rustc nightly MIR dump of tarpc -> SMT-LIB2 bit-vector encoding of the io::ErrorKind tables composed with codec wire functions -> z3 4.8.12 and cvc5 1.0 (must agree); translation validated against the real functions under real codecs each run"},
             {"name": "kani-cbmc", "path": "/verif/lib/kprop.py", "serves_properties": sorted(claimed),
              "kind_free_text": "Kani 0.68 / CBMC 6.11 (cadical) bounded symbolic execution of the compiled tarpc code; harness crates in /verif/harness, in-crate overlay in /verif/overlay; counterexamples replayed natively (/verif/harness/*/src/main.rs, /verif/replay)"}],
 "checks": checks,
 "notes": "See DESIGN.md. exit 0 = held within the stated bounds; 1 = natively reproduced counterexample (VIOLATION line); 2 = inconclusive (timeout / OOM / tool error / vacuous harness / counterexample that does not reproduce). Five genuine defects were found and repaired by 'fix:' commits in /repo (known_findings.json, DESIGN §5).",
 "not_applicable": na}
json.dump(man, open(os.path.join(V, "MANIFEST.json"), "w"), indent=1)
print("claimed:", sorted(claimed), "not applicable:", [n["property_id"] for n in na])
