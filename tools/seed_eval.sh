#!/bin/bash
# usage: seed_eval.sh <PID> <k> <demo-file-name-in-OUT/mutk> [cargo test args for the demo]
# Confirms a sub-agent's mutation in ITS scratch worktree (suite passes, demo fails with / passes
# without), stores it under /verif/seeded/<PID>-m<k>/, then runs the registered quick check
# against /repo with the patch applied and reverts /repo.
PID=$1; K=$2; DEMO=$3; shift 3
ROOT=${MUTROOT:-/tmp/mut}; TAG=${MUTTAG:-m}; WT=$ROOT/$PID; OUT=$WT/OUT/mut$K; DST=/verif/seeded/$PID-$TAG$K
export CARGO_NET_OFFLINE=true
set -u
cd $WT && git checkout -q -- . && git apply $OUT/patch.diff || { echo "APPLY-FAILED"; exit 9; }
cp $OUT/$DEMO tarpc/tests/
name=$(basename $DEMO .rs)
echo "--- demo WITH mutation"; cargo test -p tarpc --features full --offline --test $name "$@" 2>&1 | grep "test result\|error" | head -5; with=$?
echo "--- suite WITH mutation"; cargo test --workspace --no-fail-fast --offline 2>&1 | grep "test result: FAILED\|^test .* FAILED\|error: could not compile" | grep -v "compile_fail\|$name" | head
git checkout -q -- .
echo "--- demo WITHOUT mutation"; cargo test -p tarpc --features full --offline --test $name "$@" 2>&1 | grep "test result\|error" | head -5
rm -f tarpc/tests/$DEMO
mkdir -p $DST && cp $OUT/patch.diff $OUT/$DEMO $DST/ && cp $OUT/meta.json $DST/agent_meta.json
echo "--- registered quick check with the mutation applied"
# default: apply to /repo, run, revert (as the brief prescribes). With EVAL_WT=<worktree of /repo HEAD>
# the patch is applied there and the check reads it through VERIF_REPO, so that /repo stays untouched
# while other checks are running.
CHK=${CHECK_AS:-$PID}
if [ -n "${EVAL_WT:-}" ]; then
  git -C $EVAL_WT checkout -q -- . && git -C $EVAL_WT apply $OUT/patch.diff && cd /verif && ( VERIF_REPO=$EVAL_WT python3 run.py $CHK --tier quick 2>&1 | grep -v "^warning" | grep "FAILED\|^OK\|INCONCL\|VIOL\|KNOWN\|native replay\|real codec" | head -30 ); echo "check_exit=${PIPESTATUS[0]}"
  git -C $EVAL_WT checkout -q -- .
else
  cd /repo && git apply $OUT/patch.diff && cd /verif && ( python3 run.py $CHK --tier quick 2>&1 | grep -v "^warning" | grep "FAILED\|^OK\|INCONCL\|VIOL\|KNOWN\|native replay\|real codec" | head -30 ); echo "check_exit=${PIPESTATUS[0]}"
  git -C /repo checkout -q -- . ; git -C /repo status --short | head -3
fi
