"""C07 — deadlines propagate across hops without stretching."""
import time
from vlib import Scratch, replay_test
import kprop
import wirecommon as W

PID = "C07"
STATIC = {
    "coverage": {
        "functions_encoded": W.WIRE_FUNCS[:3],
        "outside_claim": ["that the server hands the decoded context to Serve::serve and that context::current() returns the span-scoped deadline (needs BaseChannel and an OpenTelemetry subscriber)",
                          "the in-memory transport (moves the Instant itself; nothing to compute)",
                          "real bincode / serde_json byte codecs (not encodable; their integer conventions are validated natively against the wire model)",
                          "clock values beyond u32 seconds (Instant overflow belongs to C16)"],
    },
    "assumptions": W.WIRE_ASSUMPTIONS,
}


def main(tier):
    t0 = time.time()
    with Scratch(PID) as s:
        metas = {k: v for k, v in W.C07.items() if tier == "thorough" or not v.get("thorough_only")}
        recs, viol, known, inc, wall = kprop.decide(PID, tier, s, "wire", metas, timeout_s=1800 if tier == "quick" else 7200, harness_timeout=600 if tier == "quick" else 3600, jobs=8)
        okm, outm = replay_test(s, "codec_model", {})
        if not okm:
            inc.append(("codec_model", "wire model disagrees with the real codecs: " + outm[-300:]))
        return kprop.finish(PID, tier, t0, recs, viol, known, inc, STATIC,
                            {"source_digest": s.src_digest, "kani_wall_s": round(wall, 1), "codec_model_validated_natively": okm})
