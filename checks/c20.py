"""C20 — load-balancing and retry stubs keep their dispatch promises."""
import time
from vlib import Scratch, log
import kprop

PID = "C20"
CRATE = "stubs"
def rr(n, calls):
    return {"desc": "RoundRobin over %d backend(s), %d sequential calls; after EVERY prefix per-backend counts differ by <=1; each call reaches exactly one backend with the caller's request and context" % (n, calls),
            "symbolic": ["every request value (u32)", "every context deadline (u16 s)"], "bounds": "n=%d (concrete per harness), %d calls, unwind 12" % (n, calls), "covers": 2}
def rc(n):
    return {"desc": "RoundRobin + a clone of it over %d backends: 4 call futures alive at once, first polls (where the backend is picked) and completions in a solver-chosen order; balanced after every step" % n,
            "symbolic": ["the poll schedule: 8 choices among the unfinished futures (all interleavings of 4 two-step calls)"], "bounds": "n=%d, 4 concurrent calls, 2 handles sharing the cursor, unwind 10" % n, "covers": 2}
def ch(n):
    return {"desc": "ConsistentHash::with_hasher over %d backend(s): equal requests -> same backend, index < n, request delivered, no panic" % n,
            "symbolic": ["hasher: rotate-xor-add family with two symbolic 64-bit seeds (finish() ranges over all u64)", "r1, r2 any u32"], "bounds": "n=%d, 3 calls, unwind 6" % n, "covers": 2}
def rt(a):
    return {"desc": "Retry, backend always Ok(symbolic): attempts numbered 1,2,3..; policy sees that attempt's result; identical Arc + caller's context re-sent; last result returned unchanged; calls == attempts; stops exactly where the policy first declines",
            "symbolic": ["policy = any predicate of the attempt number (8-bit mask)", "each backend value (u32)", "request value", "context deadline"], "bounds": "<=%d attempts, backend future ready at once" % a, "covers": 2}
METAS = {
    "rr_seq_n1": rr(1, 3), "rr_seq_n2": rr(2, 6), "rr_seq_n3": rr(3, 8), "rr_seq_n4": rr(4, 10),
    "rr_conc_n2": rc(2), "rr_conc_n3": rc(3),
    "ch_eq_n1": ch(1), "ch_eq_n2": ch(2), "ch_eq_n3": ch(3), "ch_eq_n4": ch(4),
    "retry_ok_a1": rt(1), "retry_ok_a3": rt(3), "retry_ok_a5": rt(5),
    # thorough tier
    "rr_seq_n5_deep": dict(rr(5, 16), thorough_only=True), "rr_seq_n6_deep": dict(rr(6, 16), thorough_only=True),
    "rr_conc_n4_deep": dict(rc(4), thorough_only=True),
    "ch_eq_n5_deep": dict(ch(5), thorough_only=True), "ch_eq_n6_deep": dict(ch(6), thorough_only=True),
    "retry_ok_a7_deep": dict(rt(7), thorough_only=True),
}
STATIC = {
    "coverage": {
        "functions_encoded": [
            "tarpc::client::stub::load_balance::RoundRobin::<B>::{new, call}",
            "tarpc::client::stub::load_balance::round_robin::cycle::{AtomicCycle::<B>::{new,next}, State::<B>::next}",
            "tarpc::client::stub::load_balance::ConsistentHash::<B, SymBuild>::{with_hasher, call, hash_request}",
            "tarpc::client::stub::retry::Retry::<closure, RB>::{new, call}  (Req = u32, Stub::Req = Arc<u32>)",
        ],
        "outside_claim": ["cursor wrap-around after 2^64 calls", "ConsistentHash::new (RandomState needs the OS RNG)",
                          "true multi-threaded execution (Kani is sequential; the cursor is a single atomic fetch_add, so every threaded run is linearised to one of the explored poll orders)",
                          "more than 4 backends / 10 calls / 5 attempts", "Retry with Err results or a backend that returns Pending (a symbolic Result<_,RpcError> discriminant sends CBMC into RpcError's dyn-Error drop glue: >20 GB; Retry::call never inspects the result, it only hands it to the policy and returns it)"],
    },
    "assumptions": [
        "Kani 0.68 / CBMC 6.11 model of Rust MIR semantics; atomics executed sequentially",
        "stub: std::rt::thread_cleanup -> no-op (works around a Kani ICE; only runs at thread exit)",
        "stub: std::time::Instant::now / alloc::fmt::format replaced (not reached by these harnesses)",
        "tracing/log compiled with max_level_off in the harness build",
        "backends, hasher family and retry policy are harness-side implementations of tarpc's Stub / BuildHasher / Fn traits",
        "context::Context fabricated with mem::zeroed + deadline (struct is non_exhaustive)",
    ],
}


def main(tier):
    t0 = time.time()
    with Scratch(PID) as s:
        metas = {k: v for k, v in METAS.items() if tier == "thorough" or not v.get("thorough_only")}
        recs, viol, known, inc, wall = kprop.decide(PID, tier, s, CRATE, metas, timeout_s=1500 if tier == "quick" else 7200,
                                                    harness_timeout=900 if tier == "quick" else 3600, jobs=8)
        return kprop.finish(PID, tier, t0, recs, viol, known, inc, STATIC,
                            {"source_digest": s.src_digest, "kani_wall_s": round(wall, 1)})
