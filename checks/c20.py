"""C20 — load-balancing and retry stubs keep their dispatch promises."""
import os
import re
import sys
import time
sys.path.insert(0, os.path.join(os.path.dirname(os.path.abspath(__file__)), "..", "mir2smt"))
from vlib import Scratch, log, replay_test
import kprop

PID = "C20"
CRATE = "stubs"
def rr(n, calls):
    return {"desc": "RoundRobin over %d backend(s), %d sequential calls; after EVERY prefix per-backend counts differ by <=1; each call reaches exactly one backend with the caller's request and context" % (n, calls),
            "symbolic": ["every request value (u32)", "every context deadline (u16 s)"], "bounds": "n=%d (concrete per harness), %d calls, unwind 12" % (n, calls), "covers": 2}
def rc(n):
    return {"desc": "RoundRobin + a clone of it over %d backends: 4 call futures alive at once, first polls (where the backend is picked) and completions in a solver-chosen order; balanced after every step" % n,
            "symbolic": ["the poll schedule: 8 choices among the unfinished futures (all interleavings of 4 two-step calls)"], "bounds": "n=%d, 4 concurrent calls, 2 handles sharing the cursor, unwind 10" % n, "covers": 2}
def ch(n):
    return {"desc": "ConsistentHash::with_hasher over %d backend(s): equal requests -> same backend, index < n, request delivered, no panic" % n,
            "symbolic": ["hasher: rotate-xor-add family with two symbolic 64-bit seeds (finish() ranges over all u64)", "r1, r2 any u32"], "bounds": "n=%d, 3 calls, unwind 6" % n, "covers": 2}
def rt(a):
    return {"desc": "Retry, backend always Ok(symbolic): attempts numbered 1,2,3..; policy sees that attempt's result; identical Arc + caller's context re-sent; last result returned unchanged; calls == attempts; stops exactly where the policy first declines",
            "symbolic": ["policy = any predicate of the attempt number (8-bit mask)", "each backend value (u32)", "request value", "context deadline"], "bounds": "<=%d attempts, backend future ready at once" % a, "covers": 2}
METAS = {
    "rr_seq_n1": rr(1, 3), "rr_seq_n2": rr(2, 6), "rr_seq_n3": rr(3, 8), "rr_seq_n4": rr(4, 10),
    "rr_conc_n2": rc(2), "rr_conc_n3": rc(3),
    "ch_eq_n1": ch(1), "ch_eq_n2": ch(2), "ch_eq_n3": ch(3), "ch_eq_n4": ch(4),
    "retry_ok_a1": rt(1), "retry_ok_a3": rt(3), "retry_ok_a5": rt(5),
    # thorough tier
    "rr_seq_n5_deep": dict(rr(5, 16), thorough_only=True), "rr_seq_n6_deep": dict(rr(6, 16), thorough_only=True),
    "rr_conc_n4_deep": dict(rc(4), thorough_only=True),
    "ch_eq_n5_deep": dict(ch(5), thorough_only=True), "ch_eq_n6_deep": dict(ch(6), thorough_only=True),
}
STATIC = {
    "coverage": {
        "functions_encoded": [
            "tarpc::client::stub::load_balance::RoundRobin::<B>::{new, call}",
            "tarpc::client::stub::load_balance::round_robin::cycle::{AtomicCycle::<B>::{new,next}, State::<B>::next}",
            "tarpc::client::stub::load_balance::ConsistentHash::<B, SymBuild>::{with_hasher, call, hash_request}",
            "tarpc::client::stub::retry::Retry::<closure, RB>::{new, call}  (Req = u32, Stub::Req = Arc<u32>)",
        ],
        "outside_claim": ["cursor wrap-around after 2^64 calls", "ConsistentHash::new (RandomState needs the OS RNG)",
                          "true multi-threaded execution under Kani (sequential); instead the MIR->SMT concurrency engine decides, for 2-3 threads x 1-2 calls x 2-3 backends and every sequentially consistent interleaving of the atomic operations in cycle::State::next, that picks stay balanced",
                          "more than 4 backends / 10 calls / 5 attempts", "Retry with Err results or a backend that returns Pending (a symbolic Result<_,RpcError> discriminant sends CBMC into RpcError's dyn-Error drop glue: >20 GB; Retry::call never inspects the result, it only hands it to the policy and returns it)"],
    },
    "assumptions": [
        "Kani 0.68 / CBMC 6.11 model of Rust MIR semantics; atomics executed sequentially",
        "stub: std::rt::thread_cleanup -> no-op (works around a Kani ICE; only runs at thread exit)",
        "stub: std::time::Instant::now / alloc::fmt::format replaced (not reached by these harnesses)",
        "tracing/log compiled with max_level_off in the harness build",
        "backends, hasher family and retry policy are harness-side implementations of tarpc's Stub / BuildHasher / Fn traits",
        "context::Context fabricated with mem::zeroed + deadline (struct is non_exhaustive)",
    ],
}


def concurrency_engine(s, viol, inc):
    """MIR -> SMT with the thread schedule as solver variables (mir2smt/conc.py)."""
    import c15_engine
    import conc
    import mir2smt
    log("  MIR->SMT concurrency engine (AtomicCycle cursor, symbolic thread schedule):")
    rec = {"engine": "rustc-nightly MIR of cycle::State::next -> SMT (bit-vector cursor, Int schedule variables) -> z3 + cvc5"}
    try:
        mir = c15_engine.dump_mir(s)
        r, results = conc.check_round_robin(mir, log=log)
        rec.update(r)
    except mir2smt.Unsupported as e:
        rec["error"] = str(e)
        inc.append(("mir2smt-conc", "next() is outside the supported MIR subset (%s): the single-atomic-operation assumption behind the Kani harnesses is NOT established" % e))
        return rec
    ok, out = replay_test(s, "rr_threads", {}, ["sequential_picks"])
    m = re.search(r"PICKS \[([\d, ]+)\]", out or "")
    if not m:
        from vlib import run, ENV
        env = dict(ENV); env["CARGO_TARGET_DIR"] = os.path.join(s.target, "replay-native")
        rc, raw, _ = run(["cargo", "test", "--offline", "--test", "rr_threads", "--", "sequential_picks", "--nocapture"], cwd=os.path.join(s.root, "replay"), env=env, timeout=1200)
        m = re.search(r"PICKS \[([\d, ]+)\]", raw)
    real = [int(x) for x in m.group(1).split(",")] if m else None
    rec["translation_validation"] = {"model_picks_sequential": rec.get("sequential_model_picks"), "real_picks_sequential": real}
    if real is None or real != rec.get("sequential_model_picks"):
        inc.append(("mir2smt-conc", "model and real RoundRobin disagree on sequential picks: %s vs %s" % (rec.get("sequential_model_picks"), real)))
    sat = [q for q in results if q["verdict"] == "sat"]
    odd = [q for q in results if q["verdict"] not in ("sat", "unsat")]
    for q in odd:
        inc.append(("mir2smt-conc", "threads=%d calls=%d n=%d: z3=%s cvc5=%s" % (q["threads"], q["calls_per_thread"], q["backends"], q["z3"], q["cvc5"])))
    if sat:
        okr, outr = replay_test(s, "rr_threads", {}, ["threads_stay_balanced"], timeout_s=1800, release=True)
        rec["stress_replay"] = "reproduced" if not okr else "not reproduced"
        log("    stress replay with real threads: %s" % rec["stress_replay"])
        if not okr:
            viol.append({"harness": "mir2smt-conc", "failed_checks": ["a thread schedule unbalances the round-robin picks"],
                         "values": [str(sat[0]["counterexample_schedule"])], "native_replay": {"8 OS threads x 60000 calls (release)": "reproduced"},
                         "what": "schedule %s for %d threads x %d calls over %d backends" % (sat[0]["counterexample_schedule"], sat[0]["threads"], sat[0]["calls_per_thread"], sat[0]["backends"]),
                         "replay_output_tail": {"stress": outr[-600:]}})
        else:
            inc.append(("mir2smt-conc", "the solver found an unbalancing schedule %s but the stress run with real threads did not show it" % sat[0]["counterexample_schedule"]))
    return rec


def main(tier):
    t0 = time.time()
    with Scratch(PID) as s:
        metas = {k: v for k, v in METAS.items() if tier == "thorough" or not v.get("thorough_only")}
        recs, viol, known, inc, wall = kprop.decide(PID, tier, s, CRATE, metas, timeout_s=1500 if tier == "quick" else 7200,
                                                    harness_timeout=900 if tier == "quick" else 3600, jobs=8)
        crec = concurrency_engine(s, viol, inc)
        return kprop.finish(PID, tier, t0, recs, viol, known, inc, STATIC,
                            {"source_digest": s.src_digest, "kani_wall_s": round(wall, 1), "mir_smt_concurrency_engine": crec})
