"""Harness metadata of the in-crate overlay (tarpc_overlay.rs), shared by C05 / C16."""
INST = "any Instant: i64 seconds >= 0, nanos < 10^9"
NOW = "clock: 0..2^40 s (35,000 years of uptime) + any nanos"
def m(desc, symbolic, covers=2):
    return {"desc": desc, "symbolic": symbolic, "bounds": "loop-free; unwind 3 (std Timespec::sub_timespec recurses once)", "covers": covers}
C05 = {
    "c05_time_until_exact": m("util::TimeUntil: now + time_until() == deadline for every future deadline; zero for every past one", ["now: " + INST, "deadline: " + INST]),
    "c05_client_arming": m("the timeout the client arms its DelayQueue with (expression extracted from client/in_flight_requests.rs::insert_request): never later than the deadline, exactly at it for spans <= 365 days, zero when already expired",
                           [NOW, "deadline: " + INST, "request id"], covers=3),
    "c05_queueing_counts": m("time spent queued before transmission counts against the deadline: due time = transmission time + timer == deadline", [NOW, "deadline: " + INST, "queueing delay: any u32 s"], covers=3),
}
C06 = {
    "c05_time_until_exact": C05["c05_time_until_exact"],
    "c16_server_arming_exact": m("the timeout the server arms its DelayQueue with (expression extracted from server/in_flight_requests.rs::start_request): never later than the deadline, exactly at it for spans <= 365 days, zero when the deadline already passed on arrival", [NOW, "deadline: " + INST, "request id"], covers=3),
    "c06_server_late_registration": m("a request registered after any delay still expires at its own deadline: registration time + timer == deadline", [NOW, "deadline: " + INST, "delay: any u32 s + ns"], covers=3),
}
C16 = {
    "c16_server_arming_exact": m("server-side timer argument (server/in_flight_requests.rs::start_request): same exactness", [NOW, "deadline: " + INST], covers=3),
    "c16_k2_client_timer_precondition": m("K2 client: for every caller-chosen deadline the armed timeout satisfies DelayQueue::insert's no-panic precondition (Instant overflow, wheel range 2^36-1 ms), for every queue age <= 30 y and wheel lag <= 400 d",
                                          [NOW, "deadline: " + INST, "queue age, wheel lag"]),
    "c16_k2_server_timer_precondition": m("K2 server: same for a peer-chosen deadline", [NOW, "deadline: " + INST, "queue age, wheel lag"]),
}
OVERLAY_ASSUMPTIONS = [
    "in-crate harnesses are appended to a scratch COPY of tarpc (cfg(kani)); the timer-arming and span-field expressions are extracted textually from the copied sources on every run (a restructured call site makes the check inconclusive, never silently green)",
    "environment contract of tokio_util::time::DelayQueue::insert modelled from the pinned tokio-util source (wheel MAX_DURATION read at run time) and validated natively at the boundary by replay/tests/delay_queue_contract.rs",
    "largest supported deadline span for exact enforcement: 365 days; queue age <= 30 years; wheel lag (time a channel sits unpolled) <= 400 days",
    "stub: std::time::Instant::now -> harness clock; std::rt::thread_cleanup -> no-op; alloc::fmt::format -> empty string",
    "Instant fabricated by transmuting {i64 secs, u32 nanos}",
]
