"""C13 — per-key channel limit is never exceeded nor over-applied."""
import os
import time
from vlib import Scratch, inject_c13_overlay, Inconclusive, log, write_evidence
import kprop

PID = "C13"
def m(desc, sym, bounds, covers=2, thorough=False):
    d = {"desc": desc, "symbolic": sym, "bounds": bounds, "covers": covers}
    if thorough:
        d["thorough_only"] = True
    return d
METAS = {
    "c13_stale_close_notification": m("limit 1: open a channel for key k, close it, open k again (arrival and close notification pending at the same poll), then a third k while the second is alive must be shed",
                                      ["the key (any u8)"], "3 polls + 1 close, unwind 3; model map / queue capacity 2"),
    "c13_two_keys_independent": m("limit 1, two distinct keys: a key at its limit sheds only its own arrivals; another key is admitted; closing frees the capacity",
                                  ["two distinct keys (any u8)"], "4 polls + 1 close, unwind 4; model capacity 2", thorough=True),
    "c13_shed_only_own_key": m("limit 1: the second arrival of a key is shed (only because 1 is alive), an arrival of another key is admitted", ["two distinct keys (any u8)"], "3 polls, unwind 3"),
    "c13_limit2_third_shed": m("limit 2: two channels of one key admitted, the third shed", ["the key (any u8)"], "3 polls, unwind 3"),
    "c13_limit1_steps3": m("limit 1, 3 solver-chosen operations (arrival with key 0/1 + poll, or close of any live channel): after every operation <= 1 live channel per key, and an arrival is shed only if 1 channel with its key is alive",
                           ["operation kind per step", "key per arrival (0/1)", "which live channel closes"], "3 operations, <=3 live channels tracked, unwind 5", covers=1, thorough=True),
}
STATIC = {
    "coverage": {
        "functions_encoded": ["tarpc::server::limits::channels_per_key::MaxChannelsPerKey::<Listener, u8, closure>::{new, poll_next, poll_listener, handle_new_channel, increment_channels_for_key, poll_closed_channels}",
                              "<Tracker<u8> as Drop>::drop, TrackedChannel drop glue, std Arc/Weak::{downgrade, upgrade, strong_count}"],
        "outside_claim": ["wake-ups (the harness polls by hand; a lost wake-up is C02's subject)", "more than 2 distinct keys / 4 operations / limit > 2",
                          "the real tokio mpsc and hashbrown under the solver (replaced by contract models; the native replay of every counterexample uses the real ones)",
                          "closes racing from other threads (Tracker::drop runs on whichever thread drops the last channel): sequential model"],
    },
    "assumptions": [
        "in-crate harness next to channels_per_key.rs in a scratch COPY (cfg(kani)); tokio::sync::mpsc and fnv::FnvHashMap replaced under cfg(kani) by array-backed contract models (overlay/verif_env.rs: FIFO that never blocks; map with entry/insert/get/get_mut/remove); exceeding the models' capacity is an assertion failure",
        "tracing/log compiled out (max_level_off added to the scratch copy's Cargo.toml)",
        "listener = harness stream with at most one pending arrival; key function = closure returning the connection's key",
        "stubs: thread_cleanup, Instant::now, fmt::format",
    ],
}


def main(tier):
    t0 = time.time()
    with Scratch(PID) as s:
        try:
            inject_c13_overlay(s)
        except Inconclusive as e:
            log("INCONCLUSIVE property=%s: %s" % (PID, e))
            write_evidence(PID, tier, t0, {"evaluations": 1, "distinct_nontrivial": 0, "explanation": str(e), "samples": []}, STATIC["assumptions"], 0)
            return 2
        metas = {k: v for k, v in METAS.items() if tier == "thorough" or not v.get("thorough_only")}
        recs, viol, known, inc, wall = kprop.decide(PID, tier, s, "overlay13", metas, cwd=os.path.join(s.repo, "tarpc"), timeout_s=3000 if tier == "quick" else 7200,
                                                    harness_timeout=1500 if tier == "quick" else 3600,
                                                    replay_kw={"as_test": [], "rustflags": "--cfg verif_replay", "test_name": "verif_replay_entry_c13"})
        return kprop.finish(PID, tier, t0, recs, viol, known, inc, STATIC, {"source_digest": s.src_digest, "kani_wall_s": round(wall, 1)})
