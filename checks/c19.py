"""C19 — request hooks run in order and short-circuit correctly."""
import time
from vlib import Scratch
import kprop

PID = "C19"
CRATE = "hooks"
SYM = ["fail bit of every hook", "deadline every hook writes into the context (u16 s)", "after-hook rewrite: leave / Ok(any u32) / Err",
       "handler result Ok(any u32) / Err", "request value (u32)", "caller's deadline"]
def m(desc, covers=2, tier="quick"):
    return {"desc": desc, "symbolic": SYM, "bounds": "one request, one poll (all hooks and the handler are ready futures), unwind 8 (log comparison <= 7 entries)", "covers": covers, "tier": tier}
METAS = {
    "chain_len0": m("before() with zero hooks -> handler runs with the caller's context"),
    "chain_len1": m("before().then(h0).serving(..)"),
    "chain_len2": m("before().then(h0).then(h1).serving(..): order, context edits visible downstream, first failure stops the chain, handler skipped, error returned unchanged"),
    "chain_len3_mixed": m("three hooks incl. a then_fn closure; every failing position", 3),
    "nested_before_before": m("serve.before(h1).before(h0): outermost first"),
    "after_only": m("serve.after(a0): runs once after the handler, sees Ok/Err, its rewrite is what serve returns", 3),
    "after_closure": m("closure after-hook through the blanket FnMut impl"),
    "after_wraps_before": m("serve.before(h0).after(a1): after-hook sees an inner before-hook's error; handler skipped"),
    "before_wraps_after": m("serve.after(a1).before(h0): failing outer before-hook -> neither handler nor after-hook"),
    "after_wraps_after": m("serve.after(a0).after(a1): outer sees what inner left"),
    "combined_before_and_after": m("before_and_after(h0): after part skipped on failure; otherwise sees the context its before part produced", 3),
    "combined_wraps_before": m("serve.before(h1).before_and_after(h0)"),
    "before_wraps_combined": m("serve.before_and_after(h1).before(h0)"),
    # thorough tier
    "chain_len4_deep": dict(m("four chained hooks, every failing position"), thorough_only=True),
    "after_wraps_combined_deep": dict(m("serve.before_and_after(h0).after(a1)"), thorough_only=True),
    "combined_wraps_after_deep": dict(m("serve.after(a1).before_and_after(h0)"), thorough_only=True),
    "triple_nest_deep": dict(m("serve.before(h2).after(a1).before(h0): three levels"), thorough_only=True),
}
STATIC = {
    "coverage": {
        "functions_encoded": [
            "tarpc::server::request_hook::before::{before, BeforeRequestNil::{before,then,serving}, BeforeRequestCons::<..>::{before,then,serving}, BeforeRequestList::then_fn, HookThenServe::<..>::{new,serve}, <F as BeforeRequest>::before}",
            "tarpc::server::request_hook::after::{ServeThenHook::<..>::{new,serve}, <F as AfterRequest>::after}",
            "tarpc::server::request_hook::before_and_after::HookThenServeThenHook::<u32,u32,..>::{new,serve}",
            "tarpc::server::request_hook::RequestHook::{before, after, before_and_after}", "tarpc::server::{serve, ServeFn::serve}",
        ],
        "instantiations": "Req = Resp = u32; hooks = harness struct H (BeforeRequest + AfterRequest) and closures",
        "outside_claim": ["chains longer than 3 (the cons list is structurally recursive; lengths 0-3 exercise Nil, Cons-of-Nil and Cons-of-Cons impls)",
                          "hooks that return Pending (hook futures are polled through the same .await; not explored)",
                          "that the channel transmits the returned Result as the response (C08 territory)"],
    },
    "assumptions": [
        "Kani 0.68 / CBMC 6.11 model of Rust MIR semantics",
        "stubs: std::rt::thread_cleanup -> no-op; std::time::Instant::now, alloc::fmt::format replaced (not reached)",
        "tracing/log compiled with max_level_off in the harness build",
        "ServerError values carry an empty detail string; identity of an error = its io::ErrorKind",
        "reference model: straight-line prediction of (tag, context seen, value seen) log and final result inside each harness",
    ],
}


def main(tier):
    t0 = time.time()
    with Scratch(PID) as s:
        metas = {k: v for k, v in METAS.items() if tier == "thorough" or not v.get("thorough_only")}
        recs, viol, known, inc, wall = kprop.decide(PID, tier, s, CRATE, metas, timeout_s=1500 if tier == "quick" else 7200,
                                                    harness_timeout=900 if tier == "quick" else 3600)
        return kprop.finish(PID, tier, t0, recs, viol, known, inc, STATIC,
                            {"source_digest": s.src_digest, "kani_wall_s": round(wall, 1)})
