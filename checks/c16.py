"""C16 — no peer-supplied input can crash an endpoint (deadline / timer arithmetic)."""
import os
import time
from vlib import Scratch, inject_overlay, Inconclusive, log, write_evidence, replay_test
import kprop
import overlaycommon as O
import wirecommon as W
import tablecommon as T

PID = "C16"
K3 = {
    "c16_k3_client_span_field": O.m("K3 client: the rpc.deadline span field (expression extracted from client.rs) can be computed and rendered with `{}` for every caller-chosen deadline, any wall clock 1970-2106",
                                    [O.NOW, "deadline: " + O.INST, "wall clock: any u32 s"]),
    "c16_k3_server_span_field": O.m("K3 server: same for a peer-chosen deadline (expression extracted from server.rs::start_request)",
                                    [O.NOW, "deadline: " + O.INST, "wall clock: any u32 s"]),
}
for k in K3.values():
    k["bounds"] = "loop-free; unwind 3; humantime's Display replaced by its contract (epoch <= t < year 10000)"
STATIC = {
    "coverage": {
        "functions_encoded": ["tarpc::context::absolute_to_relative_time::deserialize (through Context's derived Deserialize)",
                              "tarpc::util::serde::deserialize_io_error_kind_from_u32 (through ServerError's derived Deserialize) on any u32 code",
                              "timer-arming expressions of client::in_flight_requests::InFlightRequests::insert_request and server::in_flight_requests::InFlightRequests::start_request (textual slices) incl. util::TimeUntil / util::MAX_TIMER_DURATION",
                              "rpc.deadline span-field expressions of client::Channel::call and server::BaseChannel::start_request (textual slices) incl. util::wall_clock_deadline and humantime::Rfc3339Timestamp's Display"],
        "tables": T.FUNCS_S + T.FUNCS_C,
        "outside_claim": ["malformed / truncated frames through LengthDelimitedCodec, real bincode and serde_json decoders on arbitrary bytes (not encodable, DESIGN §1)",
                          "floods of duplicates / unknown ids (need BaseChannel::poll_next)", "'keeps serving afterwards' is checked only natively by the endpoint replay, for the counterexample values"],
    },
    "assumptions": O.OVERLAY_ASSUMPTIONS + W.WIRE_ASSUMPTIONS[:1] + ["stub: std::time::SystemTime::now -> harness wall clock"] + T.ASSUMPTIONS,
}


def span_secs(now_s, now_n, dl_s, dl_n):
    d = (dl_s - now_s) * 10**9 + (dl_n - now_n)
    return max(d, 0) // 10**9


def main(tier):
    t0 = time.time()
    with Scratch(PID) as s:

        def real_wire(h, vals):          # K1: [now_s, now_n, secs, nanos, ...]
            # the real endpoints run on the real clock (small uptime): the harness clock is folded
            # into the duration so that an overflow found at a large `now` is replayed as one
            secs = min(vals[2] + vals[0], 2**64 - 1)
            ok, out = replay_test(s, "c16_endpoints", {"VERIF_SECS": str(secs), "VERIF_NANOS": str(vals[3] % 10**9)},
                                  ["decode_context_with_peer_duration", "server_channel_survives_peer_deadline"])
            return {"test": "c16_endpoints (decode + server channel over duplex/bincode)", "secs": str(vals[2]), "reproduced": not ok, "output": out}

        def real_overlay(h, vals):       # K2/K3: [now_s, now_n, (wall,) dl_s, dl_n, ...]
            if h.startswith("c16_k3"):
                secs = span_secs(vals[0], vals[1], vals[3], vals[4])
                env = {"VERIF_SECS": str(secs), "VERIF_SUBSCRIBER": "fmt"}
            else:
                secs = span_secs(vals[0], vals[1], vals[2], vals[3])
                env = {"VERIF_SECS": str(secs)}
            names = ["client_dispatch_survives_caller_deadline"] if "client" in h else ["server_channel_survives_peer_deadline"]
            ok, out = replay_test(s, "c16_endpoints", env, names)
            return {"test": "c16_endpoints::" + names[0], "span_secs": str(secs), "env": env, "reproduced": not ok, "output": out}

        wire_metas = dict(W.C16)
        # K4: the error-kind code of a response is peer-supplied too (decoded inside the client's dispatch)
        for k in ("c15_errkind_any_u32_varint", "c15_errkind_any_u32_json"):
            wire_metas[k] = W.C15[k]
        r1, v1, k1, i1, w1 = kprop.decide(PID, tier, s, "wire", wire_metas, timeout_s=1800,
                                          extra_replay=lambda h, v: real_wire(h, v) if h.startswith("c16_") else None)
        # the overlay is injected only now: the external wire crate above was built against the
        # untouched copy
        try:
            ext = inject_overlay(s)
        except Inconclusive as e:
            log("INCONCLUSIVE property=%s: %s" % (PID, e))
            write_evidence(PID, tier, t0, {"evaluations": 1, "distinct_nontrivial": 0, "explanation": str(e), "samples": []}, STATIC["assumptions"], 0)
            return 2
        metas = dict(O.C16)
        metas.update(K3)
        r2, v2, k2, i2, w2 = kprop.decide(PID, tier, s, "overlay", metas, cwd=os.path.join(s.repo, "tarpc"), timeout_s=1800,
                                          replay_kw={"as_test": [], "rustflags": "--cfg verif_replay"}, extra_replay=real_overlay)
        # the environment contract of DelayQueue is re-validated natively on every run
        okc, outc = replay_test(s, "delay_queue_contract", {})
        okr, outr = replay_test(s, "rfc3339_contract", {})
        inc = i1 + i2
        if not okc:
            inc.append(("delay_queue_contract", "the DelayQueue::insert contract model disagrees with the real tokio-util: " + outc[-300:]))
        if not okr:
            inc.append(("rfc3339_contract", "the humantime Display contract disagrees with the real humantime: " + outr[-300:]))
        recs = dict(r1)
        recs.update(r2)
        # K5: expiry / duplicate ids / unknown ids must not crash either in-flight table
        try:
            r3, v3, k3, i3, w3 = T.run_tables(PID, tier, s, server=["sift_steps2"], client=["cift_steps2"], timeout_s=3000, harness_timeout=1500)
            recs.update(r3); v2 += v3; k2 += k3; inc += i3; w2 += w3
        except Inconclusive as e:
            inc.append(("table-overlays", str(e)))
        return kprop.finish(PID, tier, t0, recs, v1 + v2, k1 + k2, inc, STATIC,
                            {"source_digest": s.src_digest, "kani_wall_s": round(w1 + w2, 1), "extracted_from_source": ext,
                             "delay_queue_contract_validated_natively": okc, "rfc3339_contract_validated_natively": okr})
