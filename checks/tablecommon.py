"""Harness metadata of the in-flight table overlays (tarpc_overlay_sift.rs / tarpc_overlay_cift.rs)."""
import os
import kprop
from vlib import inject_server_table_overlay, inject_client_table_overlay, inject_exec_overlay

SYM_S = ["which operation at each step: a request arrives (any deadline: u16 s + ns, past or future) / Cancel / a response is written / time passes (any u16 s) and expirations are polled",
         "two symbolic u64 ids (possibly equal) the operations pick from", "the clock"]
SYM_C = ["which operation at each step: a request is transmitted (any deadline) / a response arrives (any u32 body) / the caller abandons the call / time passes and expirations are polled / the connection is lost",
         "two symbolic u64 ids (possibly equal)", "the clock"]
def ms(steps, covers, need=None):
    d = {"desc": "server in-flight table, %d solver-chosen operations on a table of <=2 requests: duplicate ids refused while in flight and nothing changes; Cancel aborts exactly that handler; a response does not abort; expiry yields only requests whose deadline HAS passed (earliest first), aborts them, leaves the others alone; after every operation entries == timers == model count and no tracked handler is aborted" % steps,
         "symbolic": SYM_S, "bounds": "%d operations, <=2 requests in flight, model map/timer capacity 2, unwind %d" % (steps, steps + 2), "covers": covers}
    if need:
        d["min_covers_sat"] = need
    return d
def mc(steps, covers, need=None):
    d = {"desc": "client in-flight table, %d solver-chosen operations on a table of <=2 calls: a response completes exactly the call with that id with exactly that body, unknown ids disturb nothing; an abandoned call receives nothing; expiry completes the call with the deadline error and never before its deadline; connection loss fails every outstanding call; after every operation entries == timers == model count and no other call has received anything" % steps,
         "symbolic": SYM_C, "bounds": "%d operations, <=2 calls in flight, model map/timer capacity 2, real tokio oneshot, unwind %d" % (steps, steps + 2), "covers": covers}
    if need:
        d["min_covers_sat"] = need
    return d
SERVER = {"sift_steps2": ms(2, 3, 2), "sift_steps3": ms(3, 3)}
CLIENT = {"cift_steps2": mc(2, 3, 2), "cift_steps3": mc(3, 3),
          "cift_routing_out_of_order": {"desc": "two calls outstanding (distinct symbolic ids): a reply for an id never issued is ignored; the second call's reply completes only the second call; a duplicate of it is ignored; then the first call's reply completes the first; table and timers end empty",
                                        "symbolic": ["three distinct u64 ids", "three u32 bodies"], "bounds": "2 inserts + 4 replies, unwind 4", "covers": 2}}
def me(desc, bounds):
    return {"desc": desc, "symbolic": ["request id (u64)", "handler's answer (u32)"], "bounds": bounds + "; unwind 5", "covers": 7, "min_covers_sat": 1}
_AB = "the application abandons the request: exactly one cancellation carrying that request's own id reaches the channel's cancellation queue (so the channel releases the table entry and timer), and no response is buffered"
EXEC = {
    "exec_dropped_without_execute": me("InFlightRequest dropped without execute — " + _AB, "one request, one drop"),
    "exec_dropped_after_first_poll": me("execute future polled once (handler pending), then dropped — " + _AB, "handler pending for 2 polls, 1 poll of execute"),
    "exec_dropped_after_second_poll": me("execute future polled twice (handler still pending), then dropped — " + _AB, "handler pending for 2 polls, 2 polls of execute"),
    "exec_completes_at_once": me("handler ready at the first poll: execute finishes, exactly one response with this request's id and the handler's answer is buffered for the channel, and NO cancellation is queued", "1 poll"),
    "exec_completes_after_pending": me("handler pending once, then ready: as above after 2 polls", "<= 3 polls"),
    "exec_aborted_before_start": me("the channel aborts the handler (Cancel / expiry path) before the first poll: execute finishes at once, the handler is never polled, no response, no cancellation", "abort before poll 1"),
    "exec_aborted_while_pending": me("the channel aborts the handler between polls: the handler makes no further progress, execute finishes, no response, no cancellation", "handler pending for 2 polls, abort before poll 2"),
}
FUNCS_E = ["tarpc::server::InFlightRequest::<u32, u32>::execute (with futures::future::Abortable and tracing::Instrumented around the handler) and its drop glue at every suspension point",
           "tarpc::server::ResponseGuard::drop", "tarpc::cancellations::{cancellations, RequestCancellation::cancel, CanceledRequests::poll_recv}"]
ASSUMPTIONS_E = ["handler-side harnesses are a child module of `server` in the scratch copy; under cfg(kani) only, tokio's mpsc in server.rs (response buffer) / cancellations.rs is the waker-less array model, whose send never has to wait (a full response buffer is outside the claim); the native replay runs against the real tokio channels",
                 "stubs (handler side): futures AtomicWaker::{register, wake} -> no-op (wake-ups are not the subject), tracing Span::{log, record_all} -> no-op (the `log` fallback formats a line per span event; with it every execute harness times out), plus the stubs of the table harnesses",
                 "the handler is a harness future (Pending k times, then a symbolic answer); handlers that fail, a full response buffer, and WHAT the channel does with the cancellation it receives are outside the claim"]
FUNCS_S = ["tarpc::server::in_flight_requests::InFlightRequests::{start_request, cancel_request, remove_request, poll_expired, len}"]
FUNCS_C = ["tarpc::client::in_flight_requests::InFlightRequests::<u32>::{insert_request, complete_request, cancel_request, poll_expired, complete_all_requests, len, is_empty}"]
ASSUMPTIONS = [
    "in-flight table harnesses are child modules of {client,server}/in_flight_requests.rs in a scratch COPY; fnv::FnvHashMap and tokio_util::time::DelayQueue are replaced (cfg(any(kani, verif_replay)): the real DelayQueue needs a tokio runtime, so the native replay uses the models too) by the array-backed contract models of overlay/verif_env.rs — DelayQueue: insert panics beyond the wheel range / on Instant overflow, remove panics on a key that is not in the queue, poll_expired yields due entries earliest first, no millisecond rounding; capacity 2",
    "stubs: alloc::sync::Arc::drop_slow -> leak (tracing::Span drop glue), core::task::Waker::{wake, wake_by_ref, drop} and futures AtomicWaker::wake -> no-op (wake-ups are not the subject; the real ones call through raw vtable pointers), tracing Span::{do_enter,do_exit} -> no-op, tracing/log compiled out",
    "what the dispatch / the server channel DO with the tables (when they call which operation) is not decided here",
]


def run_tables(pid, tier, s, server=None, client=None, timeout_s=3000, harness_timeout=1500):
    """Injects the table overlays into the scratch copy and decides the given harnesses.
    Returns (recs, viol, known, inc, wall)."""
    recs, viol, known, inc, wall = {}, [], [], [], 0.0
    cwd = os.path.join(s.repo, "tarpc")
    if server:
        inject_server_table_overlay(s)
        r, v, k, i, w = kprop.decide(pid, tier, s, "overlay-sift", {h: SERVER[h] for h in server}, cwd=cwd, timeout_s=timeout_s, harness_timeout=harness_timeout,
                                     replay_kw={"as_test": [], "rustflags": "--cfg verif_replay", "test_name": "verif_replay_entry_sift"})
        recs.update(r); viol += v; known += k; inc += i; wall += w
    if client:
        inject_client_table_overlay(s)
        r, v, k, i, w = kprop.decide(pid, tier, s, "overlay-cift", {h: CLIENT[h] for h in client}, cwd=cwd, timeout_s=timeout_s, harness_timeout=harness_timeout,
                                     replay_kw={"as_test": [], "rustflags": "--cfg verif_replay", "test_name": "verif_replay_entry_cift"})
        recs.update(r); viol += v; known += k; inc += i; wall += w
    return recs, viol, known, inc, wall


def run_exec(pid, tier, s, timeout_s=2400, harness_timeout=900):
    """Handler side (ResponseGuard): injects the exec overlay and decides its registered harness."""
    inject_exec_overlay(s)
    return kprop.decide(pid, tier, s, "overlay-exec", dict(EXEC), cwd=os.path.join(s.repo, "tarpc"), timeout_s=timeout_s, harness_timeout=harness_timeout,
                        replay_kw={"as_test": [], "rustflags": "--cfg verif_replay", "test_name": "verif_replay_entry_exec"})
