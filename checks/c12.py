"""C12 — per-channel request limit throttles exactly the excess (limiter logic against a contract channel)."""
import os
import time
from vlib import Scratch, inject_c12_overlay, Inconclusive, log, write_evidence, replay_test
import kprop

PID = "C12"
SYM = ["what the wrapped channel's stream does at each of up to 3 polls: yields a request with any u64 id / Pending / end of stream / transport error",
       "whether the wrapped channel's sink is Ready / Pending / failing at each of up to 3 readiness polls"]
def m(limit, start):
    return {"desc": "one poll of MaxRequests with limit %d from a state with %d requests in flight: a request reaches the application only while fewer than the limit are in flight; every refused request gets exactly one WouldBlock error response with its own id, written only to a ready sink, and is not handed over; nothing is refused below the limit" % (limit, start),
            "symbolic": SYM, "bounds": "limit=%d, %d in flight at entry (concrete per harness), <=3 inner stream polls and <=3 readiness polls per poll, unwind 5" % (limit, start), "covers": 5,
            "min_covers_sat": 2}
METAS = {"c12_limit0": m(0, 0), "c12_limit1_idle": m(1, 0), "c12_limit1_busy": m(1, 1),
         "c12_limit2_one_in_flight": m(2, 1), "c12_limit2_full": m(2, 2), "c12_limit2_over": m(2, 3)}
def mrel(limit, start):
    d = m(limit, start)
    d["desc"] = ("as the base harness with limit %d / %d in flight, but the wrapped channel may also RELEASE up to 2 requests (a Cancel or an expiry it processes) at the start of each of its polls, before it reads — which the real BaseChannel::poll_next does in one call. "
                 "Decides the property's last sentence: a request is refused only if the limit really was reached when it was read" % (limit, start))
    d["symbolic"] = SYM + ["how many requests the wrapped channel releases at the start of each of its polls (0..2)"]
    return d
METAS["c12_limit1_busy_release_in_poll"] = mrel(1, 1)
METAS["c12_limit2_full_release_in_poll"] = mrel(2, 2)
STATIC = {
    "coverage": {
        "functions_encoded": ["tarpc::server::limits::requests_per_channel::MaxRequests::<M>::{new, poll_next, start_send, in_flight_requests} (M = harness channel implementing tarpc's Channel contract)",
                              "drop glue of tarpc::server::{TrackedRequest, ResponseGuard} for refused requests"],
        "outside_claim": ["the REAL BaseChannel's in-flight count (start_request / remove_request / cancellation / expiry): the harness channel counts a request from read until a response is written, which is the contract BaseChannel documents; BaseChannel itself is out of CBMC's reach (DESIGN §1)",
                          "concurrent handler completions between polls beyond what the symbolic entry state (in-flight count) covers: each poll is checked from an arbitrary-but-enumerated state (inductive step), not along histories",
                          "limits above 2; more than 3 inner polls within one poll of the limiter"],
    },
    "assumptions": [
        "in-crate harness appended as a child module of `server` in a scratch COPY of tarpc (cfg(kani))",
        "stub: alloc::sync::Arc::drop_slow -> no-op (the last Arc leaks its pointee): dropping a refused TrackedRequest drops a tracing::Span whose niche-encoded Option<Inner> otherwise sends CBMC into Arc<dyn Subscriber> drop glue",
        "tokio::sync::mpsc behind RequestCancellation replaced under cfg(kani) by the waker-less array model (overlay/verif_env.rs): the real sender's drop wakes through a raw vtable pointer",
        "stubs: tracing::span::Span::{do_enter, do_exit} -> no-op (logging environment)",
        "harness channel M = model of the Channel contract: in-flight count rises when a request is yielded, falls when a response is written",
        "tracing/log compiled out (max_level_off added to the scratch copy's Cargo.toml); stubs: thread_cleanup, Instant::now, fmt::format",
        "transport error type of the harness channel is a unit struct (io::Error's recursive dyn-Error drop glue is avoided)",
    ],
}


def main(tier):
    t0 = time.time()
    with Scratch(PID) as s:
        try:
            inject_c12_overlay(s)
        except Inconclusive as e:
            log("INCONCLUSIVE property=%s: %s" % (PID, e))
            write_evidence(PID, tier, t0, {"evaluations": 1, "distinct_nontrivial": 0, "explanation": str(e), "samples": []}, STATIC["assumptions"], 0)
            return 2
        def real_channel(h, vals):
            # second opinion for the release-in-poll harnesses: the same history against a REAL BaseChannel
            if "release_in_poll" not in h:
                return None
            lim = "1" if "limit1" in h else "2"
            ok, out = replay_test(s, "c12_cancel_then_request", {"VERIF_LIMIT": lim})
            return {"test": "c12_cancel_then_request (real BaseChannel + max_concurrent_requests(%s) over the in-memory transport)" % lim, "reproduced": not ok, "output": out}
        recs, viol, known, inc, wall = kprop.decide(PID, tier, s, "overlay12", METAS, cwd=os.path.join(s.repo, "tarpc"), timeout_s=2400,
                                                    harness_timeout=900, jobs=8,
                                                    replay_kw={"as_test": [], "rustflags": "--cfg verif_replay", "test_name": "verif_replay_entry_c12"}, extra_replay=real_channel)
        return kprop.finish(PID, tier, t0, recs, viol, known, inc, STATIC, {"source_digest": s.src_digest, "kani_wall_s": round(wall, 1)})
