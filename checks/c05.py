"""C05 — client enforces request deadlines, never early (scoped to the arming arithmetic)."""
import os
import time
from vlib import Scratch, inject_overlay, Inconclusive, log, write_evidence
import kprop
import overlaycommon as O
import tablecommon as T

PID = "C05"
STATIC = {
    "coverage": {
        "functions_encoded": ["<std::time::Instant as tarpc::util::TimeUntil>::time_until",
                              "timer-arming expression of tarpc::client::in_flight_requests::InFlightRequests::insert_request (textual slice)"] + T.FUNCS_C,
        "outside_claim": ["WHEN the dispatch polls the table for expirations (pump_write's ordering, re-polling after an expiry, a stalled sink): client::RequestDispatch is out of CBMC's reach; the table-level harness decides that a poll yields exactly the calls whose deadline has passed and completes them with the deadline error",
                          "the real DelayQueue wheel and tokio's timer driver (ms granularity; replaced by a contract model)",
                          "deadline spans beyond 365 days (the timer is allowed to be clamped there, see C16)"],
    },
    "assumptions": O.OVERLAY_ASSUMPTIONS + T.ASSUMPTIONS,
}


def main(tier):
    t0 = time.time()
    with Scratch(PID) as s:
        try:
            ext = inject_overlay(s)
        except Inconclusive as e:
            log("INCONCLUSIVE property=%s: %s" % (PID, e))
            write_evidence(PID, tier, t0, {"evaluations": 1, "distinct_nontrivial": 0, "explanation": str(e), "samples": []}, STATIC["assumptions"], 0)
            return 2
        cwd = os.path.join(s.repo, "tarpc")
        recs, viol, known, inc, wall = kprop.decide(PID, tier, s, "overlay", O.C05, cwd=cwd, timeout_s=1800,
                                                    replay_kw={"as_test": [], "rustflags": "--cfg verif_replay"})
        # the client's in-flight table: expiry completes the call with the deadline error, never early
        try:
            r2, v2, k2, i2, w2 = T.run_tables(PID, tier, s, client=["cift_steps2"] + (["cift_steps3"] if tier == "thorough" else []),
                                              timeout_s=3000 if tier == "quick" else 7200, harness_timeout=1500 if tier == "quick" else 3600)
            recs.update(r2); viol += v2; known += k2; inc += i2; wall += w2
        except Inconclusive as e:
            inc.append(("client-table-overlay", str(e)))
        return kprop.finish(PID, tier, t0, recs, viol, known, inc, STATIC,
                            {"source_digest": s.src_digest, "kani_wall_s": round(wall, 1), "extracted_from_source": ext})
