"""C05 — client enforces request deadlines, never early (scoped to the arming arithmetic)."""
import os
import time
from vlib import Scratch, inject_overlay, Inconclusive, log, write_evidence
import kprop
import overlaycommon as O

PID = "C05"
STATIC = {
    "coverage": {
        "functions_encoded": ["<std::time::Instant as tarpc::util::TimeUntil>::time_until",
                              "timer-arming expression of tarpc::client::in_flight_requests::InFlightRequests::insert_request (textual slice)"],
        "outside_claim": ["that poll_expired completes the call with DeadlineExceeded; reply-vs-expiry ordering; the DelayQueue wheel and tokio's timer driver (ms granularity) — the real DelayQueue needs a tokio runtime and the dispatch is out of CBMC's reach (DESIGN §1)",
                          "deadline spans beyond 365 days (the timer is allowed to be clamped there, see C16)"],
    },
    "assumptions": O.OVERLAY_ASSUMPTIONS,
}


def main(tier):
    t0 = time.time()
    with Scratch(PID) as s:
        try:
            ext = inject_overlay(s)
        except Inconclusive as e:
            log("INCONCLUSIVE property=%s: %s" % (PID, e))
            write_evidence(PID, tier, t0, {"evaluations": 1, "distinct_nontrivial": 0, "explanation": str(e), "samples": []}, STATIC["assumptions"], 0)
            return 2
        cwd = os.path.join(s.repo, "tarpc")
        recs, viol, known, inc, wall = kprop.decide(PID, tier, s, "overlay", O.C05, cwd=cwd, timeout_s=1800,
                                                    replay_kw={"as_test": [], "rustflags": "--cfg verif_replay"})
        return kprop.finish(PID, tier, t0, recs, viol, known, inc, STATIC,
                            {"source_digest": s.src_digest, "kani_wall_s": round(wall, 1), "extracted_from_source": ext})
