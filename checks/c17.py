"""C17 — generated service glue connects each method to itself (fixed family of definitions)."""
import os
import time
from vlib import Scratch, run, log, ENV
import kprop

PID = "C17"
CRATE = "glue"
def m(desc, covers=2):
    return {"desc": desc, "symbolic": ["which client method is called", "every argument value", "context deadline (u16 s)"],
            "bounds": "one call per run; unwind 12-18 (byte-wise comparison of the name string)", "covers": covers}
METAS = {
    "glue_calc": m("Calc: sub/bus (same-typed siblings, anagram names), r#fn (raw ident, unit), zero() (no args)"),
    "glue_mixed": m("Mixed: f(u8,u32,i64) / g(u32,u8,i64) / h(u16,u16,u16) / explicit -> ()", 3),
    "glue_names": m("Names: _lead, trail_, dou__ble, mixedCase, Shout, a"),
    "glue_attrs": m("Attrs: doc/allow/cfg attributes, a cfg'd-out method between live ones, derive = [Clone, PartialEq]"),
    "glue_noserde": m("Plain: derive_serde = false, private trait, raw identifiers as argument names"),
    "glue_rnames": m("Registry: method names r, read, rr_lookup, re_, x2 (names that begin like the raw-identifier prefix)"),
}
METAS["glue_serde_tags_varint"] = {"desc": "Shop: sibling methods check_out / checkout (variants CheckOut / Checkout): the generated request and response enums come back from the wire model (positional, bincode-like) as the same variant with the same fields",
                                   "symbolic": ["which sibling", "a, b (u32)"], "bounds": "one request + one response, unwind 20", "covers": 2}
METAS["glue_serde_tags_json"] = dict(METAS["glue_serde_tags_varint"], desc="same through the name-tagged (JSON-like) convention: two variants sharing a tag would be conflated")
CTX_ARG = {"glue_ctx_arg": m("Relay: an RPC argument named `ctx` of type Context — only if the macro accepts the definition: implementor gets the request's context, the argument arrives as the argument")}
STATIC = {
    "coverage": {
        "functions_encoded": [
            "output of tarpc_plugins::service (plugins/src/lib.rs: trait_service, struct_server, impl_serve_for_server, enum_request + RequestName, enum_response, struct_client, From<Stub>, impl_client_rpc_methods) expanded by the real proc macro for 7 service definitions / 26 methods",
            "tarpc::client::stub::Stub (harness Direct<S> stub), tarpc::server::Serve",
        ],
        "programs": 5,
        "outside_claim": ["the quantifier 'every service definition the macro accepts': the solver quantifies over method choice and argument values of an ENUMERATED family of definitions, not over programs",
                          "generic/lifetime-carrying argument types, String/Vec arguments (heap values; equality would need unwinding over their length)",
                          "transport between client and server (the stub calls Serve::serve directly)"],
        "negative_compile_cases": ["method named `new` must be rejected", "method named `serve` must be rejected"],
    },
    "assumptions": [
        "Kani 0.68 / CBMC 6.11 model of Rust MIR semantics",
        "stubs: std::rt::thread_cleanup -> no-op; Instant::now / alloc::fmt::format replaced (not reached)",
        "tracing/log max_level_off in the harness build; tarpc built with feature serde1 so the macro's default derive path is the shipped one",
        "implementors are harness code: each method records (tag,args,deadline) and returns a method-specific non-commutative function",
        "compile-time rejection clause is decided by rustc (cargo check must fail with the macro's message), not by the solver",
    ],
}


def negative_cases(s):
    """`new` / `serve` as method names must be rejected at compile time with the macro's own message."""
    out = []
    cwd = os.path.join(s.harness, CRATE)
    env = dict(ENV)
    env["CARGO_TARGET_DIR"] = os.path.join(s.target, CRATE + "-native")
    for feat, needle in (("neg_new", "method name conflicts with generated fn `BadClient::new`"),
                         ("neg_serve", "method name conflicts with generated fn `Bad::serve`")):
        rc, o, _ = run(["cargo", "check", "--offline", "--lib", "--features", feat], cwd=cwd, env=env, timeout=900)
        ok = rc not in (0, None) and needle in o
        out.append({"case": feat, "rejected": rc not in (0, None), "message_found": needle in o})
        log("  negative case %-10s rejected=%s message=%s" % (feat, rc not in (0, None), needle in o))
    rc, o, _ = run(["cargo", "check", "--offline", "--lib"], cwd=cwd, env=env, timeout=900)
    out.append({"case": "positive family compiles natively", "rejected": rc != 0, "message_found": rc == 0})
    rc, o, _ = run(["cargo", "check", "--offline", "--lib", "--features", "arg_ctx"], cwd=cwd, env=env, timeout=900)
    out.append({"case": "arg_ctx (RPC argument named ctx)", "rejected": rc != 0, "message_found": True})
    log("  argument named ctx: %s" % ("rejected at compile time" if rc != 0 else "ACCEPTED by the macro -> checking that it is compiled correctly"))
    return out


def main(tier):
    t0 = time.time()
    with Scratch(PID) as s:
        recs, viol, known, inc, wall = kprop.decide(PID, tier, s, CRATE, METAS, timeout_s=1500 if tier == "quick" else 3600)
        neg = negative_cases(s)
        if not neg[3]["rejected"]:
            # the macro accepts an argument named ctx: it must then be wired correctly
            r2, v2, k2, i2, w2 = kprop.decide(PID, tier, s, CRATE + "-argctx", CTX_ARG, cwd=os.path.join(s.harness, CRATE), timeout_s=900,
                                              kani_extra=["--features", "arg_ctx"], replay_kw={"cargo_extra": ["--features", "arg_ctx"]})
            recs.update(r2); viol += v2; known += k2; inc += i2; wall += w2
        for n in neg[:2]:
            if not n["rejected"]:
                viol.append({"harness": "compile:" + n["case"], "failed_checks": ["a method named like a generated item was accepted by the macro"],
                             "values": [], "native_replay": {"cargo check": "compiled"}, "what": n["case"]})
            elif not n["message_found"]:
                inc.append(("compile:" + n["case"], "rejected, but not with the macro's reserved-name message"))
        if neg[2]["rejected"]:
            inc.append(("compile:family", "the positive family does not compile natively"))
        return kprop.finish(PID, tier, t0, recs, viol, known, inc, STATIC,
                            {"source_digest": s.src_digest, "kani_wall_s": round(wall, 1), "negative_compile_results": neg})
