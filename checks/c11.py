"""C11 — tracked request state is bounded and fully reclaimed (both in-flight tables)."""
import time
from vlib import Scratch, Inconclusive, log, write_evidence
import kprop
import tablecommon as T

PID = "C11"
STATIC = {
    "coverage": {
        "functions_encoded": T.FUNCS_S + T.FUNCS_C + T.FUNCS_E,
        "outside_claim": ["the client's in-flight maximum (capacity check in the dispatch before dequeuing a request) and the server channel's in_flight_requests() accessor: client::RequestDispatch / server::BaseChannel are out of CBMC's reach",
                          "that the dispatch / channel actually call the removal path in every situation (write failures, channel drop, what BaseChannel does with a queued cancellation): the tables' own operations and the application-side handle (drop before / during execute, completion, abort) are decided",
                          "histories longer than 3 operations, more than 2 tracked requests (slot reuse within those bounds is covered)"],
    },
    "assumptions": T.ASSUMPTIONS + T.ASSUMPTIONS_E,
}


def main(tier):
    t0 = time.time()
    with Scratch(PID) as s:
        try:
            server = ["sift_steps3"]
            client = ["cift_steps2"] + (["cift_steps3"] if tier == "thorough" else [])
            recs, viol, known, inc, wall = T.run_tables(PID, tier, s, server=server, client=client,
                                                        timeout_s=3000 if tier == "quick" else 7200, harness_timeout=1500 if tier == "quick" else 3600)
            r, v, k, i, w = T.run_exec(PID, tier, s)
            recs.update(r); viol += v; known += k; inc += i; wall += w
        except Inconclusive as e:
            log("INCONCLUSIVE property=%s: %s" % (PID, e))
            write_evidence(PID, tier, t0, {"evaluations": 1, "distinct_nontrivial": 0, "explanation": str(e), "samples": []}, STATIC["assumptions"], 0)
            return 2
        return kprop.finish(PID, tier, t0, recs, viol, known, inc, STATIC, {"source_digest": s.src_digest, "kani_wall_s": round(wall, 1)})
