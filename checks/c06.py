"""C06 — server enforces request deadlines, never early (scoped to the arming arithmetic)."""
import os
import time
from vlib import Scratch, inject_overlay, Inconclusive, log, write_evidence
import kprop
import overlaycommon as O
import tablecommon as T

PID = "C06"
STATIC = {
    "coverage": {
        "functions_encoded": ["<std::time::Instant as tarpc::util::TimeUntil>::time_until",
                              "timer-arming expression of tarpc::server::in_flight_requests::InFlightRequests::start_request (textual slice) incl. util::MAX_TIMER_DURATION"] + T.FUNCS_S,
        "outside_claim": ["that NOTHING IS TRANSMITTED for an expired request and WHEN the channel polls the table (BaseChannel::poll_next / start_send, the limiter's polling order): the server channel is out of CBMC's reach; the table-level harness decides that a poll aborts exactly the handlers whose deadline has passed and leaves the others alone",
                          "the real DelayQueue (contract model instead)",
                          "deadline spans beyond 365 days (timer clamped, see C16/F3)"],
    },
    "assumptions": O.OVERLAY_ASSUMPTIONS + T.ASSUMPTIONS,
}


def main(tier):
    t0 = time.time()
    with Scratch(PID) as s:
        try:
            ext = inject_overlay(s)
        except Inconclusive as e:
            log("INCONCLUSIVE property=%s: %s" % (PID, e))
            write_evidence(PID, tier, t0, {"evaluations": 1, "distinct_nontrivial": 0, "explanation": str(e), "samples": []}, STATIC["assumptions"], 0)
            return 2
        recs, viol, known, inc, wall = kprop.decide(PID, tier, s, "overlay", O.C06, cwd=os.path.join(s.repo, "tarpc"), timeout_s=1800,
                                                    replay_kw={"as_test": [], "rustflags": "--cfg verif_replay"})
        # the server's in-flight table: expiry aborts exactly the due handlers, never early, others unaffected
        try:
            r2, v2, k2, i2, w2 = T.run_tables(PID, tier, s, server=["sift_steps3"], timeout_s=3000, harness_timeout=1500)
            recs.update(r2); viol += v2; known += k2; inc += i2; wall += w2
        except Inconclusive as e:
            inc.append(("server-table-overlay", str(e)))
        return kprop.finish(PID, tier, t0, recs, viol, known, inc, STATIC,
                            {"source_digest": s.src_digest, "kani_wall_s": round(wall, 1), "extracted_from_source": ext})
