"""C06 — server enforces request deadlines, never early (scoped to the arming arithmetic)."""
import os
import time
from vlib import Scratch, inject_overlay, Inconclusive, log, write_evidence
import kprop
import overlaycommon as O

PID = "C06"
STATIC = {
    "coverage": {
        "functions_encoded": ["<std::time::Instant as tarpc::util::TimeUntil>::time_until",
                              "timer-arming expression of tarpc::server::in_flight_requests::InFlightRequests::start_request (textual slice) incl. util::MAX_TIMER_DURATION"],
        "outside_claim": ["that poll_expired aborts the handler and nothing is transmitted afterwards; handler-completion-vs-expiry ordering; that other requests are unaffected; the request limiter's polling order — the server channel, Abortable and the real DelayQueue are out of CBMC's reach (DESIGN §1, §4)",
                          "deadline spans beyond 365 days (timer clamped, see C16/F3)"],
    },
    "assumptions": O.OVERLAY_ASSUMPTIONS,
}


def main(tier):
    t0 = time.time()
    with Scratch(PID) as s:
        try:
            ext = inject_overlay(s)
        except Inconclusive as e:
            log("INCONCLUSIVE property=%s: %s" % (PID, e))
            write_evidence(PID, tier, t0, {"evaluations": 1, "distinct_nontrivial": 0, "explanation": str(e), "samples": []}, STATIC["assumptions"], 0)
            return 2
        recs, viol, known, inc, wall = kprop.decide(PID, tier, s, "overlay", O.C06, cwd=os.path.join(s.repo, "tarpc"), timeout_s=1800,
                                                    replay_kw={"as_test": [], "rustflags": "--cfg verif_replay"})
        return kprop.finish(PID, tier, t0, recs, viol, known, inc, STATIC,
                            {"source_digest": s.src_digest, "kani_wall_s": round(wall, 1), "extracted_from_source": ext})
