"""C15 — shipped transports deliver messages intact and in order (wire schema + codec tables)."""
import time
from vlib import Scratch, replay_test
import kprop
import wirecommon as W

PID = "C15"
STATIC = {
    "coverage": {
        "functions_encoded": W.WIRE_FUNCS,
        "outside_claim": ["length-delimited framing under fragmentation (tokio_util Framed + BytesMut: not encodable, DESIGN §1)",
                          "end-of-stream signalling; the in-memory transports (tokio / futures mpsc)",
                          "bodies beyond u32 / [u8;8], non-empty or unicode strings, string escaping in real serde_json"],
    },
    "assumptions": W.WIRE_ASSUMPTIONS,
}


def main(tier):
    t0 = time.time()
    with Scratch(PID) as s:
        def real_codec(h, vals):
            if not h.startswith("c15_errkind_rt"):
                return None
            name = "json_codec_round_trips_error_kinds" if h.endswith("json") else "bincode_codec_round_trips_error_kinds"
            ok, out = replay_test(s, "errkind_real_codecs", {"VERIF_KIND_INDEX": str(vals[0])}, [name])
            return {"test": "errkind_real_codecs::" + name + " (tokio_serde::formats codec)", "kind_index": str(vals[0]), "reproduced": not ok, "output": out}

        metas = {k: v for k, v in W.C15.items() if tier == "thorough" or not v.get("thorough_only")}
        recs, viol, known, inc, wall = kprop.decide(PID, tier, s, "wire", metas, timeout_s=1800 if tier == "quick" else 7200, harness_timeout=600 if tier == "quick" else 3600, jobs=8, extra_replay=real_codec)
        okm, outm = replay_test(s, "codec_model", {})
        if not okm:
            inc.append(("codec_model", "wire model disagrees with the real codecs: " + outm[-300:]))
        return kprop.finish(PID, tier, t0, recs, viol, known, inc, STATIC,
                            {"source_digest": s.src_digest, "kani_wall_s": round(wall, 1), "codec_model_validated_natively": okm})
