"""C15 — shipped transports deliver messages intact and in order (wire schema + codec tables)."""
import os
import sys
import time
sys.path.insert(0, os.path.join(os.path.dirname(os.path.abspath(__file__)), "..", "mir2smt"))
from vlib import Scratch, replay_test, log, inject_memchan_overlay, Inconclusive
import kprop
import wirecommon as W

PID = "C15"
def t(desc, sym):
    return {"desc": desc, "symbolic": sym, "bounds": "one Sink/Stream call on a fresh transport over a harness byte stream; unwind 4", "covers": 2}
TRANSPORT = {
    "c15_close_reaches_the_byte_stream": t("serde_transport::Transport::poll_close shuts the underlying byte stream down exactly once and reports its outcome (Ready/Pending/Err)", ["outcome of the stream's poll_shutdown"]),
    "c15_flush_is_not_close": t("poll_flush flushes the byte stream and does not shut it down; outcome reported", ["outcome of the stream's poll_flush"]),
    "c15_eof_ends_the_stream": t("a byte stream at end-of-file ends the transport's Stream with None", []),
}
def mch(steps):
    return {"desc": "in-memory transport (transport::channel::unbounded), %d solver-chosen operations on a connected pair — one end sends a symbolic u32 (poll_ready, start_send, poll_flush; a message counts as written only if the sink was ready and accepted it) / the other end polls its stream / the sending end is closed-and-dropped or just dropped: every message comes out exactly once, unchanged, in the order sent; an idle live peer gives Pending; end-of-stream is reported only once the peer is gone AND everything sent before has been delivered" % steps,
            "symbolic": ["which operation at each step", "every message body (u32)", "whether poll_close is called before the drop"],
            "bounds": "%d operations, <=3 undelivered messages, one direction, unwind %d" % (steps, steps + 2), "covers": 3}
MEMCHAN = {"c15_memchan_steps4": mch(4), "c15_memchan_steps5": mch(5), "c15_memchan_steps7": mch(7),
           "c15_memchan_survivor": {"desc": "the surviving end after its peer was dropped: the message the peer sent before going away is still delivered, then the stream ends (polling the survivor's sink for readiness in between does not panic; what it reports is not part of the property)",
                                    "symbolic": ["message body (u32)"], "bounds": "one message, unwind 4", "covers": 1}}
MEMCHAN_THOROUGH = {"c15_memchan_steps9": mch(9)}
STATIC = {
    "coverage": {
        "functions_encoded": W.WIRE_FUNCS + ["tarpc::serde_transport::{new, <Transport as Sink>::{poll_flush, poll_close}, <Transport as Stream>::poll_next} over tokio_serde::Framed<tokio_util::codec::Framed<Io, LengthDelimitedCodec>> with a harness byte stream and codec",
                              "tarpc::transport::channel::{unbounded, <UnboundedChannel as Stream>::poll_next, <UnboundedChannel as Sink>::{poll_ready, start_send, poll_flush, poll_close}} (Item = SinkItem = u32)"],
        "outside_claim": ["length-delimited framing under fragmentation (tokio_util Framed + BytesMut: not encodable, DESIGN §1)",
                          "end-of-stream after bytes are in flight (only an idle transport's close/EOF is decided); the bounded in-memory transport (futures mpsc: 10 GB, DESIGN §1); wake-ups of the unbounded one (the harness polls by hand) and tokio's mpsc itself (contract model under Kani, real channel in the native replay)",
                          "bodies beyond u32 / [u8;8], non-empty or unicode strings, string escaping in real serde_json"],
    },
    "assumptions": W.WIRE_ASSUMPTIONS + [
        "in-memory transport harnesses: in-crate module of a scratch COPY of tarpc; under cfg(kani) only, `tokio::sync::mpsc` in transport/channel.rs is the waker-less contract model overlay/verif_env.rs::mpsc_closing (FIFO; send fails / is_closed once the receiver is gone; poll_recv yields buffered items first and None only when the buffer is empty and every sender is gone); a counterexample is replayed natively on the REAL tokio channel",
        "MIR->SMT engine: supports the MIR subset of loop-free integer table functions (const, discriminant, enum constants, switchInt, goto, Serialize/Deserialize/Try calls summarised); anything else = inconclusive; its codec wire functions (varint+zig-zag / fixed width / JSON) are compared cell by cell with the real functions under real bincode / serde_json for all 39 stable kinds on every run; z3 4.8.12 and cvc5 1.0 must agree",
    ],
}


def main(tier):
    t0 = time.time()
    with Scratch(PID) as s:
        def real_codec(h, vals):
            if not h.startswith("c15_errkind_rt"):
                return None
            name = "json_codec_round_trips_error_kinds" if h.endswith("json") else "bincode_codec_round_trips_error_kinds"
            ok, out = replay_test(s, "errkind_real_codecs", {"VERIF_KIND_INDEX": str(vals[0])}, [name])
            return {"test": "errkind_real_codecs::" + name + " (tokio_serde::formats codec)", "kind_index": str(vals[0]), "reproduced": not ok, "output": out}

        metas = {k: v for k, v in W.C15.items() if tier == "thorough" or not v.get("thorough_only")}
        # "peers that omit optional fields (... a deadline) are still understood": shared with C07
        metas["c07_default_deadline_request_json"] = W.C07["c07_default_deadline_request_json"]
        recs, viol, known, inc, wall = kprop.decide(PID, tier, s, "wire", metas, timeout_s=1800 if tier == "quick" else 7200, harness_timeout=600 if tier == "quick" else 3600, jobs=8, extra_replay=real_codec)
        # second crate: the Sink/Stream forwarding of serde_transport::Transport (end-of-stream clause)
        r2, v2, k2, i2, w2 = kprop.decide(PID, tier, s, "transport", TRANSPORT, timeout_s=1200)
        recs.update(r2); viol += v2; known += k2; inc += i2; wall += w2
        # third: the in-memory transport over a contract model of tokio's mpsc (order / end-of-stream clause)
        try:
            inject_memchan_overlay(s)
            mm = dict(MEMCHAN)
            if tier == "thorough":
                mm.update(MEMCHAN_THOROUGH)
            r3, v3, k3, i3, w3 = kprop.decide(PID, tier, s, "overlay-memchan", mm, cwd=os.path.join(s.repo, "tarpc"), timeout_s=1800, harness_timeout=1200,
                                              replay_kw={"as_test": [], "rustflags": "--cfg verif_replay", "test_name": "verif_replay_entry_memchan"})
            recs.update(r3); viol += v3; known += k3; inc += i3; wall += w3
        except Inconclusive as e:
            inc.append(("c15_memchan", str(e)))
        # second engine: MIR -> SMT-LIB -> z3 + cvc5 on the error-kind table (independent of Kani)
        import c15_engine
        log("  MIR->SMT engine (error-kind table):")
        mrec, mv, mi = c15_engine.check(s)
        viol += mv; inc += mi
        okm, outm = replay_test(s, "codec_model", {})
        if not okm:
            inc.append(("codec_model", "wire model disagrees with the real codecs: " + outm[-300:]))
        return kprop.finish(PID, tier, t0, recs, viol, known, inc, STATIC,
                            {"source_digest": s.src_digest, "kani_wall_s": round(wall, 1), "codec_model_validated_natively": okm, "mir_smt_engine": mrec})
