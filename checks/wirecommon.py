"""Harness metadata of the `wire` crate, shared by C07 / C15 / C16."""
SYM_CLOCK = "clock: any u32 seconds + any nanos < 10^9 at send time"
def m(desc, symbolic, bounds="unwind 18 (16-byte trace id, <=17-char field names); one message per direction unless stated", covers=2):
    return {"desc": desc, "symbolic": symbolic, "bounds": bounds, "covers": covers}
TRACE = "trace id (u128), span id (u64), sampling decision"
C07 = {
    "c07_hop1_varint": m("one hop, bincode-varint model: received deadline >= caller's and <= caller's + transit; passed deadline arrives as receiver's now, no error",
                         [SYM_CLOCK, "deadline: any u32 s + nanos (before, at or after now)", "transit: any u32 s + nanos", TRACE]),
    "c07_hop1_fixint": m("same, bincode fixed-width model", [SYM_CLOCK, "deadline", "transit", TRACE]),
    "c07_hop1_json": m("same, self-describing (JSON-like) model; trace context sent as an array", [SYM_CLOCK, "deadline", "transit", TRACE]),
    "c07_hop1_mapjson": dict(m("same, self-describing model with every struct as a map", [SYM_CLOCK, "deadline", "transit", TRACE]), thorough_only=True),
    "c07_hops3_varint": m("three hops with processing time between them: nested deadline >= original and <= original + accumulated transit",
                          [SYM_CLOCK, "original deadline >= now", "3 transit delays and 3 processing delays (u16 s each)", TRACE]),
    "c07_default_deadline_json": m("self-describing Context without a deadline field decodes with deadline = decode-time now + 10 s",
                                   [SYM_CLOCK, "transit", TRACE], covers=1),
    "c07_default_deadline_mapjson": dict(m("same with every struct as a map", [SYM_CLOCK, "transit", TRACE], covers=1), thorough_only=True),
    "c07_default_deadline_request_json": m("whole ClientMessage::Request whose context omits the deadline: id, body, trace intact, deadline = now + 10 s",
                                           [SYM_CLOCK, "transit", "id (u64), body (u32)", TRACE], covers=1),
}
C15 = {
    "c15_request_rt_varint": m("ClientMessage::Request<u32> round trip, bincode-varint model: id, body, trace context, deadline exact; nothing left over",
                               [SYM_CLOCK, "remaining time", "id (u64)", "body (u32)", TRACE]),
    "c15_request_rt_fixint": m("same, bincode fixed-width model", [SYM_CLOCK, "remaining time", "id", "body", TRACE]),
    "c15_request_rt_json": m("same, self-describing model (maps keyed by field name, externally tagged enum; trace context as array)", [SYM_CLOCK, "remaining time", "id", "body", TRACE]),
    "c15_request_array_body_varint": m("Request<[u8; 8]> body round trip", ["8 body bytes", "id", TRACE], covers=1),
    "c15_cancel_rt_varint": m("ClientMessage::Cancel round trip (varint model)", ["request id (u64)", TRACE]),
    "c15_cancel_rt_mapjson": dict(m("ClientMessage::Cancel round trip (self-describing model, all maps)", ["request id (u64)", TRACE]), thorough_only=True),
    "c15_cancel_without_trace_json": m("Cancel from a peer that omits trace_context: request id intact, default trace context", ["request id (u64)"]),
    "c15_response_ok_rt_varint": m("Response<u32> Ok round trip (varint model)", ["request id", "body"], covers=1),
    "c15_response_ok_rt_json": m("Response<u32> Ok round trip (self-describing model)", ["request id", "body"], covers=1),
    "c15_response_err_rt_varint": m("Response Err(ServerError) keeps its id and kind (varint model)", ["request id"], covers=1),
    "c15_errkind_rt_varint": m("ServerError kind table: 18 portable io::ErrorKinds exact, 21 other stable kinds -> Other; bincode-varint model (= shipped tokio_serde Bincode)",
                               ["kind: any of the 39 stable io::ErrorKind variants"], covers=3),
    "c15_errkind_rt_fixint": m("same, bincode fixed-width model", ["kind: any of 39"], covers=3),
    "c15_errkind_rt_json": m("same, self-describing model", ["kind: any of 39"], covers=3),
    "c15_errkind_any_u32_varint": m("any u32 error-kind code a peer sends decodes (known -> that kind, unknown -> Other), varint model", ["code: any u32"]),
    "c15_errkind_any_u32_json": m("same, self-describing model", ["code: any u32"]),
    "c15_sequence2_varint": m("Request then Cancel written back to back are read complete, in order, nothing left (varint model)", ["2 ids", "body", TRACE]),
    "c15_sequence3_varint": m("Request, Cancel, Cancel written back to back are read complete, in order, nothing left (varint model)", ["3 ids", "body", TRACE]),
}
C16 = {
    "c16_decode_any_deadline_varint": m("K1: Context decode of ANY wire duration (u64 s, u32 ns) at any plausible clock reading returns (Ok or Err) without panicking; varint model",
                                        ["secs: any u64", "nanos: any u32 (incl. >= 10^9)", "now: 0..2^40 s + nanos", TRACE]),
    "c16_decode_any_deadline_json": m("K1, self-describing model", ["secs: any u64", "nanos: any u32", "now", TRACE]),
}
C01 = {
    "c01_response_requires_id_json": m("a Response frame from which the peer omitted request_id (self-describing model) is a decode error: ids are never defaulted, so no call can be completed by a frame that names no call",
                                       ["the omitted id (u64)", "body (u32)"], bounds="unwind 12; Response<u32> with an Ok body; one frame"),
    "c01_cancel_requires_id_json": m("same for ClientMessage::Cancel without request_id (trace context sent as an array)", ["the omitted id (u64)"], bounds="unwind 18; one frame"),
}
WIRE_ASSUMPTIONS = [
    "wire model: harness-side serde format over typed tokens; its integer conventions (varint+zig-zag / fixed width / JSON numbers) are validated against real bincode 1.3 and serde_json by the native differential test replay/tests/codec_model.rs on every run",
    "payload strings are empty (ServerError.detail), bodies are u32 or [u8; 8]; longer / unicode bodies are outside the claim",
    "stub: std::time::Instant::now -> harness clock (exact same value natively through an interposed clock_gettime during replay)",
    "stub: std::rt::thread_cleanup -> no-op; alloc::fmt::format -> empty string (serde error messages are not the subject)",
    "Instant fabricated by transmuting {i64 secs, u32 nanos}; layout checked natively by setup",
    "tracing/log compiled with max_level_off in the harness build",
]
WIRE_FUNCS = [
    "serde-derived Serialize/Deserialize of tarpc::{ClientMessage<T>, Request<T>, Response<T>, ServerError}, tarpc::context::Context, tarpc::trace::{Context, TraceId, SpanId, SamplingDecision} (T = u32, [u8; 8])",
    "tarpc::context::absolute_to_relative_time::{serialize, deserialize}", "tarpc::context::ten_seconds_from_now",
    "tarpc::trace::u128_serde::{serialize, deserialize}",
    "tarpc::util::serde::{serialize_io_error_kind_as_u32, deserialize_io_error_kind_from_u32}",
]
