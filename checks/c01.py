"""C01 — responses reach exactly the call that asked (client in-flight table)."""
import time
from vlib import Scratch, Inconclusive, log, write_evidence
import kprop
import tablecommon as T

PID = "C01"
STATIC = {
    "coverage": {
        "functions_encoded": T.FUNCS_C,
        "outside_claim": ["request-id allocation in Channel::call (shared atomic counter) and the dispatch's read pump that feeds responses to the table: client::RequestDispatch is out of CBMC's reach; the claim is that the TABLE routes by id",
                          "more than 2 concurrent calls, histories longer than 3 operations, cloned handles"],
    },
    "assumptions": T.ASSUMPTIONS,
}


def main(tier):
    t0 = time.time()
    with Scratch(PID) as s:
        try:
            client = ["cift_routing_out_of_order", "cift_steps2"] + (["cift_steps3"] if tier == "thorough" else [])
            recs, viol, known, inc, wall = T.run_tables(PID, tier, s, client=client, timeout_s=3000 if tier == "quick" else 7200,
                                                        harness_timeout=1500 if tier == "quick" else 3600)
        except Inconclusive as e:
            log("INCONCLUSIVE property=%s: %s" % (PID, e))
            write_evidence(PID, tier, t0, {"evaluations": 1, "distinct_nontrivial": 0, "explanation": str(e), "samples": []}, STATIC["assumptions"], 0)
            return 2
        return kprop.finish(PID, tier, t0, recs, viol, known, inc, STATIC, {"source_digest": s.src_digest, "kani_wall_s": round(wall, 1)})
