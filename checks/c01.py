"""C01 — responses reach exactly the call that asked (client in-flight table)."""
import time
from vlib import Scratch, Inconclusive, log, write_evidence, replay_test
import kprop
import tablecommon as T
import wirecommon as W

PID = "C01"
STATIC = {
    "coverage": {
        "functions_encoded": T.FUNCS_C + ["serde-derived Deserialize of tarpc::Response<u32> and tarpc::ClientMessage<u32> (a frame that names no request id must be rejected)"],
        "outside_claim": ["request-id allocation in Channel::call (shared atomic counter) and the dispatch's read pump that feeds responses to the table: client::RequestDispatch is out of CBMC's reach; the claim is that the TABLE routes by id",
                          "more than 2 concurrent calls, histories longer than 3 operations, cloned handles"],
    },
    "assumptions": T.ASSUMPTIONS + [W.WIRE_ASSUMPTIONS[0], "missing-id harnesses: self-describing (JSON-like) wire model only — under the positional bincode models a field cannot be absent; a counterexample is additionally pushed through the real tokio_serde Json codec (replay/tests/c01_missing_id_real_json.rs)"],
}


def main(tier):
    t0 = time.time()
    with Scratch(PID) as s:
        try:
            # wire side first (the overlay injection below changes the scratch copy of tarpc)
            def real_codec(h, vals):
                name = "response_without_id_is_rejected" if "response" in h else "cancel_without_id_is_rejected"
                ok, out = replay_test(s, "c01_missing_id_real_json", {}, [name])
                return {"test": "c01_missing_id_real_json::" + name + " (tokio_serde::formats::Json)", "reproduced": not ok, "output": out}
            recs, viol, known, inc, wall = kprop.decide(PID, tier, s, "wire", dict(W.C01), timeout_s=1200, harness_timeout=600, extra_replay=real_codec)
            client = ["cift_routing_out_of_order", "cift_steps2"] + (["cift_steps3"] if tier == "thorough" else [])
            r, v, k, i, w = T.run_tables(PID, tier, s, client=client, timeout_s=3000 if tier == "quick" else 7200,
                                         harness_timeout=1500 if tier == "quick" else 3600)
            recs.update(r); viol += v; known += k; inc += i; wall += w
        except Inconclusive as e:
            log("INCONCLUSIVE property=%s: %s" % (PID, e))
            write_evidence(PID, tier, t0, {"evaluations": 1, "distinct_nontrivial": 0, "explanation": str(e), "samples": []}, STATIC["assumptions"], 0)
            return 2
        return kprop.finish(PID, tier, t0, recs, viol, known, inc, STATIC, {"source_digest": s.src_digest, "kani_wall_s": round(wall, 1)})
