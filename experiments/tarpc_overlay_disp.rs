// Client dispatch, write side — in-crate overlay, child module of `client`.  Real code under
// check: client::RequestDispatch::<u32, u32, T>::{pump_write, poll_write_request,
// poll_next_request, poll_write_cancel, poll_next_cancellation, ensure_writeable} on top of the
// real client in-flight table.  ONE call of pump_write from a solver-chosen state (inductive step).
// Environment: transport T = harness script (readiness / flush / write answers); FnvHashMap,
// DelayQueue and tokio mpsc (request queue, cancellation queue) = models of verif_env.rs; the
// completion handles are real tokio oneshot channels.
#![allow(missing_docs, dead_code, unused_imports, static_mut_refs, clippy::all)]
use super::in_flight_requests::InFlightRequests;
use super::{Config, DispatchRequest, RequestDispatch, RpcError};
use crate::nd::*;
use crate::{ClientMessage, Response};
use futures::{Sink, Stream, StreamExt};
use std::pin::Pin;
use std::task::{Context, Poll, Waker};
use super::oneshot;
use tracing::Span;

#[cfg(kani)]
pub fn noop_arc_drop_slow<T: ?Sized, A: std::alloc::Allocator>(_: &mut std::sync::Arc<T, A>) {}
#[cfg(kani)]
pub fn noop_wake(w: Waker) { std::mem::forget(w) }
#[cfg(kani)]
pub fn noop_wake_by_ref(_: &Waker) {}
#[cfg(kani)]
pub fn noop_waker_drop(_: &mut Waker) {}
#[cfg(kani)]
pub fn noop_atomic_waker_wake(_: &futures::task::AtomicWaker) {}
#[cfg(kani)]
pub fn noop_atomic_waker_register(_: &futures::task::AtomicWaker, _: &Waker) {}
#[cfg(kani)]
pub fn noop_span_log(_: &Span, _: &str, _: log::Level, _: std::fmt::Arguments<'_>) {}
#[cfg(kani)]
pub fn noop_record_all<'a>(s: &'a Span, _: &tracing::field::ValueSet<'_>) -> &'a Span { s }

#[derive(Debug)]
pub struct TErr;
impl std::fmt::Display for TErr { fn fmt(&self, _: &mut std::fmt::Formatter<'_>) -> std::fmt::Result { Ok(()) } }
impl std::error::Error for TErr {}

// ----------------------------------------------------------------------------- scripted transport
const SCRIPT: usize = 3;
/// k-th readiness answer: 0 Ready, 1 Pending, 2 error;  k-th flush answer likewise;  write: 0 ok, 1 error
static mut READY_KIND: [u8; SCRIPT] = [0; SCRIPT];
static mut FLUSH_KIND: [u8; SCRIPT] = [0; SCRIPT];
static mut SEND_KIND: u8 = 0;
static mut READY_POLLS: usize = 0;
static mut FLUSH_POLLS: usize = 0;
static mut CLOSE_POLLS: usize = 0;
static mut LAST_READY_OK: bool = false;
static mut SENT_WITHOUT_READY: bool = false;
static mut UNFLUSHED: bool = false;
/// what reached the transport: (0 = Request / 1 = Cancel, id)
static mut OUT: [(u8, u64); 2] = [(0, 0); 2];
static mut OUT_N: usize = 0;
struct T;
impl Stream for T {
    type Item = Result<Response<u32>, TErr>;
    fn poll_next(self: Pin<&mut Self>, _: &mut Context<'_>) -> Poll<Option<Self::Item>> { Poll::Pending }
}
impl Sink<ClientMessage<u32>> for T {
    type Error = TErr;
    fn poll_ready(self: Pin<&mut Self>, _: &mut Context<'_>) -> Poll<Result<(), TErr>> {
        let k = unsafe { READY_POLLS };
        assert!(k < SCRIPT);
        unsafe { READY_POLLS += 1; }
        match unsafe { READY_KIND[k] } {
            0 => { unsafe { LAST_READY_OK = true; } Poll::Ready(Ok(())) }
            1 => Poll::Pending,
            _ => Poll::Ready(Err(TErr)),
        }
    }
    fn start_send(self: Pin<&mut Self>, m: ClientMessage<u32>) -> Result<(), TErr> {
        if !unsafe { LAST_READY_OK } { unsafe { SENT_WITHOUT_READY = true; } }
        unsafe { LAST_READY_OK = false; }
        let rec = match &m { ClientMessage::Request(r) => (0u8, r.id), ClientMessage::Cancel { request_id, .. } => (1u8, *request_id), _ => (9u8, 0) };
        std::mem::forget(m);
        if unsafe { SEND_KIND } != 0 { return Err(TErr); }
        unsafe { assert!(OUT_N < 2); OUT[OUT_N] = rec; OUT_N += 1; UNFLUSHED = true; }
        Ok(())
    }
    fn poll_flush(self: Pin<&mut Self>, _: &mut Context<'_>) -> Poll<Result<(), TErr>> {
        let k = unsafe { FLUSH_POLLS };
        assert!(k < SCRIPT);
        unsafe { FLUSH_POLLS += 1; }
        match unsafe { FLUSH_KIND[k] } {
            0 => { unsafe { UNFLUSHED = false; } Poll::Ready(Ok(())) }
            1 => Poll::Pending,
            _ => Poll::Ready(Err(TErr)),
        }
    }
    fn poll_close(self: Pin<&mut Self>, _: &mut Context<'_>) -> Poll<Result<(), TErr>> { unsafe { CLOSE_POLLS += 1; } Poll::Ready(Ok(())) }
}

type Res = Result<u32, RpcError>;
/// 0 = nothing delivered, 1 = Ok(v), 2 = DeadlineExceeded, 3 = Send error, 4 = other error, 5 = sender gone
fn peek(rx: &mut oneshot::Receiver<Res>) -> (u8, u32) {
    match rx.try_recv() {
        Ok(r) => {
            let k = match &r { Ok(v) => (1, *v), Err(RpcError::DeadlineExceeded) => (2, 0), Err(RpcError::Send(_)) => (3, 0), Err(_) => (4, 0) };
            std::mem::forget(r);
            k
        }
        Err(oneshot::error::TryRecvError::Empty) => (0, 0),
        Err(oneshot::error::TryRecvError::Closed) => (5, 0),
    }
}
fn le(a: (i64, u32), b: (i64, u32)) -> bool { a.0 < b.0 || (a.0 == b.0 && a.1 <= b.1) }
fn ctx_with(d: (i64, u32)) -> crate::context::Context {
    let mut c: crate::context::Context = unsafe { std::mem::zeroed() };
    c.deadline = mk_instant(d.0, d.1);
    c
}

/// One call of pump_write.  `inflight` calls already transmitted (concrete per harness), everything
/// else symbolic: their deadlines, the clock, whether a request / a cancellation is queued, whether
/// the queued request's caller has already given up, whether the handles that feed the queues are
/// gone, what the transport answers.
fn one_pump_write(inflight: usize) {
    let mut i = 0;
    while i < SCRIPT {
        unsafe {
            READY_KIND[i] = any_u8(); FLUSH_KIND[i] = any_u8();
            assume(READY_KIND[i] <= 2 && FLUSH_KIND[i] <= 2);
        }
        i += 1;
    }
    unsafe { SEND_KIND = any_u8() & 1; }
    let ids = [any_u64(), any_u64(), any_u64()];
    assume(ids[0] != ids[1] && ids[0] != ids[2] && ids[1] != ids[2]);
    set_now(5, 0);
    let (req_tx, pending_requests) = super::mpsc::channel::<DispatchRequest<u32, u32>>(1);
    let (cancellation, canceled_requests) = crate::cancellations::cancellations();
    let mut d = Box::pin(RequestDispatch::<u32, u32, T> {
        transport: T.fuse(),
        pending_requests,
        canceled_requests,
        in_flight_requests: InFlightRequests::default(),
        config: Config { max_in_flight_requests: 2, pending_request_buffer: 1 },
        terminal_error: None,
    });
    // calls already on the wire
    let mut dl = [(0i64, 0u32); 3];
    let mut rx: [Option<oneshot::Receiver<Res>>; 3] = [None, None, None];
    let mut k = 0;
    while k < inflight {
        dl[k] = (any_u16() as i64 + 5, 0);
        let (tx, r) = oneshot::channel();
        let ok = d.as_mut().in_flight_requests().insert_request(ids[k], ctx_with(dl[k]), Span::none(), tx).is_ok();
        assert!(ok);
        rx[k] = Some(r);
        k += 1;
    }
    // a call waiting to be transmitted
    let has_req = any_bool();
    let caller_gave_up = any_bool();
    if has_req {
        dl[2] = (any_u16() as i64 + 5, 0);
        let (tx, mut r) = oneshot::channel();
        if caller_gave_up { r.close(); }
        rx[2] = Some(r);
        let sent = req_tx.try_send(DispatchRequest { ctx: ctx_with(dl[2]), span: Span::none(), request_id: ids[2], request: 7u32, response_completion: tx }).is_ok();
        assert!(sent);
    }
    // an abandoned call (its guard queued a cancellation): one of the in-flight ids or an unknown one
    let has_cancel = any_bool();
    let cancel_which = any_u8();
    assume(cancel_which <= 2);
    let cancel_id = if cancel_which == 2 { any_u64() } else { ids[cancel_which as usize] };
    if cancel_which == 2 { assume(cancel_id != ids[0] && cancel_id != ids[1] && cancel_id != ids[2]); }
    if has_cancel { cancellation.cancel(cancel_id); }
    let handles_gone = any_bool();
    if handles_gone { drop(req_tx); drop(cancellation); } else { std::mem::forget(req_tx); std::mem::forget(cancellation); }
    // time passes
    let now = (any_u16() as i64 + 5, 0u32);
    set_now(now.0, now.1);

    let r = {
        let mut cx = Context::from_waker(Waker::noop());
        d.as_mut().pump_write(&mut cx)
    };
    let verdict: u8 = match &r { Poll::Pending => 0, Poll::Ready(None) => 1, Poll::Ready(Some(Ok(()))) => 2, Poll::Ready(Some(Err(_))) => 3 };
    std::mem::forget(r);
    let tracked_after = d.as_mut().in_flight_requests().len();
    std::mem::forget(d);

    // C14: nothing is written to a transport that has not just reported ready
    assert!(!unsafe { SENT_WITHOUT_READY }, "written without readiness");
    let n_out = unsafe { OUT_N };
    assert!(n_out <= 1);            // one message per pump at most
    // what each caller has received
    let mut got = [(0u8, 0u32); 3];
    let mut j = 0;
    while j < 3 { if let Some(x) = rx[j].as_mut() { got[j] = peek(x); } j += 1; }
    std::mem::forget(rx);
    // C05: a deadline error is never delivered early
    j = 0;
    while j < 3 { if got[j].0 == 2 { assert!(le(dl[j], now), "expired before its deadline"); } j += 1; }
    if verdict == 0 || verdict == 1 {
        // the write side goes idle (or finishes): no transmitted call whose deadline has passed is
        // left waiting — expirations are processed whatever the sink or the queues are doing
        j = 0;
        while j < inflight {
            if le(dl[j], now) { assert!(got[j].0 != 0, "idle with an expired call still waiting"); }
            j += 1;
        }
        // C14: it does not go idle with written items unflushed unless the flush itself is pending
        if verdict == 0 { assert!(unsafe { FLUSH_POLLS } >= 1, "idle without flushing"); }
        assert!(n_out == 0);        // a pump that wrote something reports progress instead
    }
    if verdict == 1 {
        // C10: finished only when both queues are closed and drained, after closing the transport
        assert!(handles_gone && unsafe { CLOSE_POLLS } == 1);
        assert!(!has_req || caller_gave_up);
    }
    if n_out == 1 {
        let (kind, id) = unsafe { OUT[0] };
        if kind == 0 {
            // the queued call was transmitted: it is the queued one, its caller had not given up,
            // and it is tracked now
            assert!(has_req && id == ids[2] && !caller_gave_up, "transmitted a request nobody waits for");
            assert!(tracked_after == inflight + 1);
            assert!(got[2].0 == 0);
            witness!(inflight == 1, "request transmitted next to an in-flight call");
        } else {
            // C03: a cancellation goes out only for a call that was in flight, exactly that id, and
            // the call is no longer tracked
            assert!(kind == 1 && has_cancel && (cancel_which as usize) < inflight && id == cancel_id, "cancellation for a call that is not in flight");
            assert!(tracked_after + 1 == inflight);
            witness!(true, "cancellation transmitted");
        }
    } else if verdict == 2 {
        // progress without a message: an expiry was processed, or the write of a request failed
        // (its caller gets the send error and the call is not tracked)
        let mut expired = 0; j = 0;
        while j < inflight { if got[j].0 == 2 { expired += 1; } j += 1; }
        let failed_write = has_req && got[2].0 == 3;
        assert!(expired == 1 || failed_write, "reported progress without any");
        if failed_write { assert!(tracked_after == inflight); }
        witness!(expired == 1, "an expiry processed");
        witness!(failed_write, "a failed write reported to its caller");
    }
    witness!(verdict == 0, "write side idle");
    witness!(verdict == 1, "write side finished");
    witness!(verdict == 3, "transport error surfaced");
}

macro_rules! disp_harnesses {
    ($( fn $name:ident() $body:block )*) => {
        $(
            #[cfg_attr(kani, kani::proof)]
            #[cfg_attr(kani, kani::unwind(5))]
            #[cfg_attr(kani, kani::stub(std::rt::thread_cleanup, crate::nd::noop))]
            #[cfg_attr(kani, kani::stub(std::time::Instant::now, crate::nd::stub_now))]
            #[cfg_attr(kani, kani::stub(alloc::fmt::format, crate::nd::stub_format))]
            #[cfg_attr(kani, kani::stub(tracing::span::Span::do_enter, crate::nd::noop_span))]
            #[cfg_attr(kani, kani::stub(tracing::span::Span::do_exit, crate::nd::noop_span))]
            #[cfg_attr(kani, kani::stub(tracing::span::Span::log, super::verif_overlay_disp::noop_span_log))]
            #[cfg_attr(kani, kani::stub(tracing::span::Span::record_all, super::verif_overlay_disp::noop_record_all))]
            #[cfg_attr(kani, kani::stub(alloc::sync::Arc::drop_slow, super::verif_overlay_disp::noop_arc_drop_slow))]
            #[cfg_attr(kani, kani::stub(core::task::wake::Waker::wake, super::verif_overlay_disp::noop_wake))]
            #[cfg_attr(kani, kani::stub(core::task::wake::Waker::wake_by_ref, super::verif_overlay_disp::noop_wake_by_ref))]
            #[cfg_attr(kani, kani::stub(<core::task::wake::Waker as core::ops::Drop>::drop, super::verif_overlay_disp::noop_waker_drop))]
            #[cfg_attr(kani, kani::stub(futures::task::AtomicWaker::wake, super::verif_overlay_disp::noop_atomic_waker_wake))]
            #[cfg_attr(kani, kani::stub(futures::task::AtomicWaker::register, super::verif_overlay_disp::noop_atomic_waker_register))]
            pub fn $name() $body
        )*
        pub const HARNESSES: &[(&str, fn())] = &[ $( (stringify!($name), $name as fn()) ),* ];
    };
}
disp_harnesses! {
    fn disp_pump_write_idle_table() { one_pump_write(0) }
    fn disp_pump_write_one_in_flight() { one_pump_write(1) }
    fn disp_pump_write_two_in_flight() { one_pump_write(2) }
}

#[cfg(all(test, verif_replay))]
#[test]
fn verif_replay_entry_disp() {
    let name = std::env::var("VERIF_REPLAY_HARNESS").expect("VERIF_REPLAY_HARNESS");
    load_values();
    for (n, f) in HARNESSES {
        if *n == name { f(); println!("REPLAY-PASSED {}", name); return; }
    }
    panic!("unknown harness");
}
