// Server channel — in-crate overlay, child module of `server`.  Real code under check:
// server::BaseChannel::<u32, u32, T>::{new, poll_next, start_request, start_send, poll_ready,
// in_flight_requests} together with the real server in-flight table.  Environment under Kani:
// transport T = harness script; FnvHashMap / DelayQueue / tokio mpsc = models of verif_env.rs;
// "no tracing subscriber installed": SpanExt::set_context and trace::Context::try_from(&Span) are
// stubbed to what they do without a subscriber (nothing / Err(NoActiveSpan)), new_child keeps the
// trace id and draws a symbolic span id (the real one asks the OS RNG).
#![allow(missing_docs, dead_code, unused_imports, static_mut_refs, clippy::all)]
use crate::nd::*;
use crate::server::{BaseChannel, Channel, Config, TrackedRequest};
use crate::{context, trace, ClientMessage, Request, Response, ServerError};
use futures::future::{pending, Abortable, Pending};
use futures::{Sink, Stream};
use std::pin::Pin;
use std::task::{Context, Poll, Waker};

#[cfg(kani)]
pub fn noop_arc_drop_slow<T: ?Sized, A: std::alloc::Allocator>(_: &mut std::sync::Arc<T, A>) {}
#[cfg(kani)]
pub fn noop_wake(w: Waker) { std::mem::forget(w) }
#[cfg(kani)]
pub fn noop_wake_by_ref(_: &Waker) {}
#[cfg(kani)]
pub fn noop_waker_drop(_: &mut Waker) {}
#[cfg(kani)]
pub fn noop_atomic_waker_wake(_: &futures::task::AtomicWaker) {}
#[cfg(kani)]
pub fn noop_atomic_waker_register(_: &futures::task::AtomicWaker, _: &Waker) {}
/// tracing's `log` fallback (a formatted line per span event when no subscriber is installed) and
/// field recording: logging environment.
#[cfg(kani)]
pub fn noop_span_log(_: &tracing::Span, _: &str, _: log::Level, _: std::fmt::Arguments<'_>) {}
#[cfg(kani)]
pub fn noop_record_all<'a>(s: &'a tracing::Span, _: &tracing::field::ValueSet<'_>) -> &'a tracing::Span { s }
/// Without a subscriber `Span::set_context` has no effect.
#[cfg(kani)]
pub fn stub_set_context(_: &tracing::Span, _: &context::Context) {}
/// Without an OpenTelemetry subscriber a span has no active otel span.
#[cfg(kani)]
pub fn stub_trace_try_from<'a>(_: &'a tracing::Span) -> Result<trace::Context, trace::NoActiveSpan> where 'a: 'a { Err(trace::NoActiveSpan) }
/// Same trace id and sampling decision, fresh (symbolic) span id.
#[cfg(kani)]
pub fn stub_new_child(c: &trace::Context) -> trace::Context {
    let mut n = *c;
    n.span_id = any_u64().into();
    n
}

#[derive(Debug)]
pub struct TErr;
impl std::fmt::Display for TErr { fn fmt(&self, _: &mut std::fmt::Formatter<'_>) -> std::fmt::Result { Ok(()) } }
impl std::error::Error for TErr {}

// ----------------------------------------------------------------------------- scripted transport
const SCRIPT: usize = 2;
/// inbound event k: 0 = Request{id, deadline, body}, 1 = Cancel{id}, 2 = Pending, 3 = end of stream
static mut IN_KIND: [u8; SCRIPT] = [2; SCRIPT];
static mut IN_ID: [u64; SCRIPT] = [0; SCRIPT];
static mut IN_DL: [(i64, u32); SCRIPT] = [(0, 0); SCRIPT];
static mut IN_TRACE: [u128; SCRIPT] = [0; SCRIPT];
static mut IN_POS: usize = 0;
/// responses that reached the transport: (request id, body)
static mut OUT: [(u64, u32); 4] = [(0, 0); 4];
static mut OUT_N: usize = 0;
struct T;
impl Stream for T {
    type Item = Result<ClientMessage<u32>, TErr>;
    fn poll_next(self: Pin<&mut Self>, _: &mut Context<'_>) -> Poll<Option<Self::Item>> {
        let k = unsafe { IN_POS };
        if k >= SCRIPT { return Poll::Pending; }
        match unsafe { IN_KIND[k] } {
            0 => {
                unsafe { IN_POS += 1; }
                let mut c: context::Context = unsafe { std::mem::zeroed() };
                let dl = unsafe { IN_DL[k] };
                c.deadline = mk_instant(dl.0, dl.1);
                c.trace_context.trace_id = unsafe { IN_TRACE[k] }.into();
                Poll::Ready(Some(Ok(ClientMessage::Request(Request { context: c, id: unsafe { IN_ID[k] }, message: 7 }))))
            }
            1 => {
                unsafe { IN_POS += 1; }
                Poll::Ready(Some(Ok(ClientMessage::Cancel { trace_context: trace::Context::default(), request_id: unsafe { IN_ID[k] } })))
            }
            2 => { unsafe { IN_POS += 1; } Poll::Pending }
            _ => Poll::Ready(None),
        }
    }
}
impl Sink<Response<u32>> for T {
    type Error = TErr;
    fn poll_ready(self: Pin<&mut Self>, _: &mut Context<'_>) -> Poll<Result<(), TErr>> { Poll::Ready(Ok(())) }
    fn start_send(self: Pin<&mut Self>, r: Response<u32>) -> Result<(), TErr> {
        let body = match &r.message { Ok(v) => *v, Err(_) => u32::MAX };
        unsafe { assert!(OUT_N < 4); OUT[OUT_N] = (r.request_id, body); OUT_N += 1; }
        std::mem::forget(r);
        Ok(())
    }
    fn poll_flush(self: Pin<&mut Self>, _: &mut Context<'_>) -> Poll<Result<(), TErr>> { Poll::Ready(Ok(())) }
    fn poll_close(self: Pin<&mut Self>, _: &mut Context<'_>) -> Poll<Result<(), TErr>> { Poll::Ready(Ok(())) }
}

// ----------------------------------------------------------------------------- reference model
const SLOTS: usize = 2;
struct Model { present: [bool; SLOTS], id: [u64; SLOTS], deadline: [(i64, u32); SLOTS], fut: [Option<Abortable<Pending<()>>>; SLOTS], handlers_offered: usize }
impl Model {
    fn find(&self, id: u64) -> usize { let mut i = 0; while i < SLOTS { if self.present[i] && self.id[i] == id { return i; } i += 1; } SLOTS }
    fn free(&self) -> usize { let mut i = 0; while i < SLOTS { if !self.present[i] { return i; } i += 1; } SLOTS }
    fn count(&self) -> usize { let mut n = 0; let mut i = 0; while i < SLOTS { if self.present[i] { n += 1; } i += 1; } n }
    fn aborted(&self, i: usize) -> bool { match &self.fut[i] { Some(f) => f.is_aborted(), None => false } }
    fn forget(&mut self, i: usize) { self.present[i] = false; std::mem::forget(self.fut[i].take()); }
}
fn le(a: (i64, u32), b: (i64, u32)) -> bool { a.0 < b.0 || (a.0 == b.0 && a.1 <= b.1) }

/// `steps` solver-chosen operations: the channel is polled (it reads whatever the scripted peer
/// sends next), the application writes a response for some id, or time passes.
fn run(steps: usize) {
    let mut i = 0;
    let ids = [any_u64(), any_u64()];
    while i < SCRIPT {
        unsafe {
            IN_KIND[i] = any_u8(); assume(IN_KIND[i] <= 3);
            IN_ID[i] = ids[(any_u8() & 1) as usize];
            IN_DL[i] = (any_u16() as i64, 0);
            IN_TRACE[i] = any_u64() as u128;
        }
        i += 1;
    }
    let mut now = (any_u16() as i64 + 10, 0u32);
    set_now(now.0, now.1);
    let mut ch: Pin<Box<BaseChannel<u32, u32, T>>> = Box::pin(BaseChannel::new(Config { pending_response_buffer: 1 }, T));
    let mut m = Model { present: [false; SLOTS], id: [0; SLOTS], deadline: [(0, 0); SLOTS], fut: [None, None], handlers_offered: 0 };
    let mut saw_dup = false; let mut saw_suppressed = false; let mut saw_cancel = false;
    let mut step = 0;
    while step < steps {
        let op = any_u8();
        assume(op <= 2);
        if op == 0 {
            let before = unsafe { IN_POS };
            let mut cx = Context::from_waker(Waker::noop());
            let r = ch.as_mut().poll_next(&mut cx);
            let after = unsafe { IN_POS };
            // replay the inbound events the channel consumed against the model
            let mut k = before;
            let mut expect_yield = SCRIPT;      // index of the event whose request must be yielded
            while k < after && k < SCRIPT {
                let id = unsafe { IN_ID[k] };
                match unsafe { IN_KIND[k] } {
                    0 => {
                        if m.find(id) == SLOTS { expect_yield = k; } else { saw_dup = true; }
                    }
                    1 => {
                        let at = m.find(id);
                        if at < SLOTS { assert!(m.aborted(at)); m.forget(at); saw_cancel = true; }
                    }
                    _ => {}
                }
                k += 1;
            }
            // expirations processed by this poll
            let mut s = 0;
            while s < SLOTS { if m.present[s] && m.aborted(s) { assert!(le(m.deadline[s], now)); m.forget(s); } s += 1; }
            match r {
                Poll::Ready(Some(Ok(tr))) => {
                    // exactly the fresh request that was just read, with the peer's context
                    assert!(expect_yield < SCRIPT && expect_yield + 1 == after);
                    assert!(tr.request.id == unsafe { IN_ID[expect_yield] });
                    assert!(instant_parts(tr.request.context.deadline) == unsafe { IN_DL[expect_yield] });
                    assert!(u128::from(tr.request.context.trace_context.trace_id) == unsafe { IN_TRACE[expect_yield] });
                    let free = m.free();
                    assume(free < SLOTS);
                    m.present[free] = true; m.id[free] = tr.request.id; m.deadline[free] = unsafe { IN_DL[expect_yield] };
                    let TrackedRequest { abort_registration, request, span, response_guard } = tr;
                    m.fut[free] = Some(Abortable::new(pending(), abort_registration));
                    std::mem::forget(request); std::mem::forget(span); std::mem::forget(response_guard);
                    m.handlers_offered += 1;
                }
                Poll::Ready(Some(Err(_))) => { assert!(false); }
                Poll::Ready(None) => {
                    // the request stream ends only when the peer closed AND nothing is in flight
                    assert!(expect_yield == SCRIPT);
                    assert!(after < SCRIPT && unsafe { IN_KIND[after] } == 3);
                    assert!(m.count() == 0);
                }
                Poll::Pending => { assert!(expect_yield == SCRIPT); }
            }
        } else if op == 1 {
            // a handler finished: the application writes its response
            let id = ids[(any_u8() & 1) as usize];
            let body = any_u32();
            assume(body != u32::MAX);
            let at = m.find(id);
            let before = unsafe { OUT_N };
            let r = ch.as_mut().start_send(Response { request_id: id, message: Ok(body) });
            let ok = r.is_ok();
            std::mem::forget(r);
            assert!(ok);
            if at < SLOTS && !m.aborted(at) {
                // tracked: exactly one response with that id and body is transmitted, and it stops counting
                assert!(unsafe { OUT_N } == before + 1 && unsafe { OUT[before] } == (id, body));
                m.forget(at);
            } else {
                // unknown, already answered, cancelled or expired: nothing is transmitted
                assert!(unsafe { OUT_N } == before);
                saw_suppressed = true;
                if at < SLOTS { m.forget(at); }
            }
        } else {
            let dt = any_u16() as i64;
            now = (now.0 + dt, now.1);
            set_now(now.0, now.1);
        }
        // handlers that are still tracked and not yet due have not been aborted
        let mut s = 0;
        while s < SLOTS { if m.present[s] && !le(m.deadline[s], now) { assert!(!m.aborted(s)); } s += 1; }
        step += 1;
    }
    witness!(saw_dup, "a request re-using an in-flight id was ignored");
    witness!(saw_suppressed, "a response for an untracked id was not transmitted");
    witness!(saw_cancel, "a cancellation aborted a handler");
    std::mem::forget(ch);
    std::mem::forget(m);
}

macro_rules! chan_harnesses {
    ($( fn $name:ident() [unwind $u:literal] $body:block )*) => {
        $(
            #[cfg_attr(kani, kani::proof)]
            #[cfg_attr(kani, kani::unwind($u))]
            #[cfg_attr(kani, kani::stub(std::rt::thread_cleanup, crate::nd::noop))]
            #[cfg_attr(kani, kani::stub(std::time::Instant::now, crate::nd::stub_now))]
            #[cfg_attr(kani, kani::stub(std::time::SystemTime::now, crate::nd::stub_wall_now))]
            #[cfg_attr(kani, kani::stub(alloc::fmt::format, crate::nd::stub_format))]
            #[cfg_attr(kani, kani::stub(tracing::span::Span::do_enter, crate::nd::noop_span))]
            #[cfg_attr(kani, kani::stub(tracing::span::Span::do_exit, crate::nd::noop_span))]
            #[cfg_attr(kani, kani::stub(alloc::sync::Arc::drop_slow, super::verif_overlay_chan::noop_arc_drop_slow))]
            #[cfg_attr(kani, kani::stub(core::task::wake::Waker::wake, super::verif_overlay_chan::noop_wake))]
            #[cfg_attr(kani, kani::stub(core::task::wake::Waker::wake_by_ref, super::verif_overlay_chan::noop_wake_by_ref))]
            #[cfg_attr(kani, kani::stub(<core::task::wake::Waker as core::ops::Drop>::drop, super::verif_overlay_chan::noop_waker_drop))]
            #[cfg_attr(kani, kani::stub(futures::task::AtomicWaker::wake, super::verif_overlay_chan::noop_atomic_waker_wake))]
            #[cfg_attr(kani, kani::stub(futures::task::AtomicWaker::register, super::verif_overlay_chan::noop_atomic_waker_register))]
            #[cfg_attr(kani, kani::stub(tracing::span::Span::log, super::verif_overlay_chan::noop_span_log))]
            #[cfg_attr(kani, kani::stub(tracing::span::Span::record_all, super::verif_overlay_chan::noop_record_all))]
            #[cfg_attr(kani, kani::stub(<tracing::Span as crate::context::SpanExt>::set_context, super::verif_overlay_chan::stub_set_context))]
            #[cfg_attr(kani, kani::stub(<crate::trace::Context as core::convert::TryFrom<&tracing::Span>>::try_from, super::verif_overlay_chan::stub_trace_try_from))]
            #[cfg_attr(kani, kani::stub(crate::trace::Context::new_child, super::verif_overlay_chan::stub_new_child))]
            pub fn $name() $body
        )*
        pub const HARNESSES: &[(&str, fn())] = &[ $( (stringify!($name), $name as fn()) ),* ];
    };
}
chan_harnesses! {
    fn chan_steps2() [unwind 5] { run(2) }
    fn chan_steps3() [unwind 6] { run(3) }
}
