// Environment models for the client-dispatch harness (cfg(kani) only): tokio mpsc with "closed"
// detection, and tokio oneshot.  Waker-less: the harness polls by hand.
//   mpsc    - array FIFO (bound CAPQ, overflow = assertion failure); poll_recv: oldest item, or
//             Ready(None) once every sender is gone (the receiver holds the only Arc), else Pending.
//   oneshot - one slot.  DEVIATION, stated: `send` stores the value and reports Ok even if the
//             receiver was closed or dropped (the real one hands the value back in Err and the
//             caller drops it).  Every sender in tarpc's client ignores the result of `send`; the
//             cut keeps the drop glue of `Result<Resp, RpcError>` (a virtual `Box<dyn Error>` drop
//             that CBMC resolves to every drop glue in the program) out of the dispatch's paths.
#![allow(missing_docs, dead_code, clippy::all)]
use std::cell::UnsafeCell;
use std::mem::MaybeUninit;
use std::sync::Arc;
use std::task::{Context, Poll};

pub const CAPQ: usize = 2;

pub mod mpsc {
    use super::*;
    pub mod error {
        #[derive(Debug)]
        pub struct SendError<T>(pub T);
    }
    struct Chan<T> { items: [MaybeUninit<T>; CAPQ], head: usize, len: usize }
    struct Shared<T>(UnsafeCell<Chan<T>>);
    unsafe impl<T> Send for Shared<T> {}
    unsafe impl<T> Sync for Shared<T> {}
    pub struct UnboundedSender<T>(Arc<Shared<T>>);
    pub struct UnboundedReceiver<T>(Arc<Shared<T>>);
    impl<T> Clone for UnboundedSender<T> { fn clone(&self) -> Self { UnboundedSender(self.0.clone()) } }
    impl<T> std::fmt::Debug for UnboundedSender<T> { fn fmt(&self, f: &mut std::fmt::Formatter<'_>) -> std::fmt::Result { f.write_str("UnboundedSender") } }
    impl<T> std::fmt::Debug for UnboundedReceiver<T> { fn fmt(&self, f: &mut std::fmt::Formatter<'_>) -> std::fmt::Result { f.write_str("UnboundedReceiver") } }
    pub fn unbounded_channel<T>() -> (UnboundedSender<T>, UnboundedReceiver<T>) {
        let c = Arc::new(Shared(UnsafeCell::new(Chan { items: unsafe { MaybeUninit::uninit().assume_init() }, head: 0, len: 0 })));
        (UnboundedSender(c.clone()), UnboundedReceiver(c))
    }
    impl<T> UnboundedSender<T> {
        pub fn send(&self, t: T) -> Result<(), error::SendError<T>> {
            let c = unsafe { &mut *(self.0).0.get() };
            assert!(c.len < CAPQ, "verif_env_disp: model queue bound exceeded");
            let idx = (c.head + c.len) % CAPQ;
            c.items[idx] = MaybeUninit::new(t);
            c.len += 1;
            Ok(())
        }
    }
    impl<T> UnboundedReceiver<T> {
        pub fn poll_recv(&mut self, _: &mut Context<'_>) -> Poll<Option<T>> {
            let c = unsafe { &mut *(self.0).0.get() };
            if c.len == 0 { return if Arc::strong_count(&self.0) == 1 { Poll::Ready(None) } else { Poll::Pending }; }
            let t = unsafe { std::ptr::read(c.items[c.head].as_ptr()) };
            c.head = (c.head + 1) % CAPQ;
            c.len -= 1;
            Poll::Ready(Some(t))
        }
    }
    pub struct Sender<T>(UnboundedSender<T>);
    pub struct Receiver<T>(UnboundedReceiver<T>);
    impl<T> Clone for Sender<T> { fn clone(&self) -> Self { Sender(self.0.clone()) } }
    impl<T> std::fmt::Debug for Sender<T> { fn fmt(&self, f: &mut std::fmt::Formatter<'_>) -> std::fmt::Result { f.write_str("Sender") } }
    impl<T> std::fmt::Debug for Receiver<T> { fn fmt(&self, f: &mut std::fmt::Formatter<'_>) -> std::fmt::Result { f.write_str("Receiver") } }
    pub fn channel<T>(_buffer: usize) -> (Sender<T>, Receiver<T>) { let (a, b) = unbounded_channel(); (Sender(a), Receiver(b)) }
    impl<T> Sender<T> {
        pub async fn send(&self, t: T) -> Result<(), error::SendError<T>> { self.0.send(t) }
        pub fn try_send(&self, t: T) -> Result<(), error::SendError<T>> { self.0.send(t) }
    }
    impl<T> Receiver<T> {
        pub fn poll_recv(&mut self, cx: &mut Context<'_>) -> Poll<Option<T>> { self.0.poll_recv(cx) }
        pub fn close(&mut self) {}
    }
}

pub mod oneshot {
    use super::*;
    use std::future::Future;
    use std::pin::Pin;
    pub mod error {
        #[derive(Debug)]
        pub struct RecvError(pub(in super::super) ());
        #[derive(Debug, PartialEq, Eq)]
        pub enum TryRecvError { Empty, Closed }
    }
    struct Slot<T> { full: bool, taken: bool, rx_closed: bool, val: MaybeUninit<T> }
    struct Shared<T>(UnsafeCell<Slot<T>>);
    unsafe impl<T> Send for Shared<T> {}
    unsafe impl<T> Sync for Shared<T> {}
    pub struct Sender<T>(Arc<Shared<T>>);
    pub struct Receiver<T>(Arc<Shared<T>>);
    impl<T> std::fmt::Debug for Sender<T> { fn fmt(&self, f: &mut std::fmt::Formatter<'_>) -> std::fmt::Result { f.write_str("oneshot::Sender") } }
    impl<T> std::fmt::Debug for Receiver<T> { fn fmt(&self, f: &mut std::fmt::Formatter<'_>) -> std::fmt::Result { f.write_str("oneshot::Receiver") } }
    pub fn channel<T>() -> (Sender<T>, Receiver<T>) {
        let c = Arc::new(Shared(UnsafeCell::new(Slot { full: false, taken: false, rx_closed: false, val: MaybeUninit::uninit() })));
        (Sender(c.clone()), Receiver(c))
    }
    impl<T> Sender<T> {
        pub fn send(self, t: T) -> Result<(), T> {
            let s = unsafe { &mut *(self.0).0.get() };
            s.val = MaybeUninit::new(t);
            s.full = true;
            Ok(())
        }
        pub fn is_closed(&self) -> bool {
            let s = unsafe { &*(self.0).0.get() };
            s.rx_closed || Arc::strong_count(&self.0) == 1
        }
    }
    impl<T> Receiver<T> {
        pub fn close(&mut self) { let s = unsafe { &mut *(self.0).0.get() }; s.rx_closed = true; }
        pub fn try_recv(&mut self) -> Result<T, error::TryRecvError> {
            let s = unsafe { &mut *(self.0).0.get() };
            if s.full && !s.taken { s.taken = true; return Ok(unsafe { std::ptr::read(s.val.as_ptr()) }); }
            if s.taken || Arc::strong_count(&self.0) == 1 { Err(error::TryRecvError::Closed) } else { Err(error::TryRecvError::Empty) }
        }
    }
    impl<T> Unpin for Receiver<T> {}
    impl<T> Future for Receiver<T> {
        type Output = Result<T, error::RecvError>;
        fn poll(mut self: Pin<&mut Self>, _: &mut Context<'_>) -> Poll<Self::Output> {
            match self.try_recv() {
                Ok(t) => Poll::Ready(Ok(t)),
                Err(error::TryRecvError::Closed) => Poll::Ready(Err(error::RecvError(()))),
                Err(error::TryRecvError::Empty) => Poll::Pending,
            }
        }
    }
}
