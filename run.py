#!/usr/bin/env python3
"""Entry point:  run.py <Cxx> [--tier quick|thorough] [--replay <file>]
exit 0 = held on everything explored; 1 = VIOLATION (natively reproduced counterexample);
2 = inconclusive (timeout / OOM / tool error / vacuous harness / non-reproducing counterexample)."""
import argparse
import importlib
import os
import sys
import time

HERE = os.path.dirname(os.path.abspath(__file__))
sys.path.insert(0, os.path.join(HERE, "lib"))
sys.path.insert(0, os.path.join(HERE, "checks"))


def main():
    ap = argparse.ArgumentParser()
    ap.add_argument("prop")
    ap.add_argument("--tier", default=os.environ.get("VERIF_TIER", "quick"), choices=["quick", "thorough"])
    ap.add_argument("--replay", default=None)
    a = ap.parse_args()
    mod = importlib.import_module(a.prop.lower())
    if a.replay:
        sys.exit(mod.replay(a.replay))
    sys.exit(mod.main(a.tier))


if __name__ == "__main__":
    main()
