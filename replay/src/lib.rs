//! Native replayers and model-validation tests (see tests/).
