//! Real-codec replay for C15: sends `ServerError { kind }` through the codecs tarpc ships
//! (tokio_serde::formats::{Bincode, Json}) and reports kinds that do not come back as the
//! property demands.  VERIF_KIND_INDEX (optional) restricts to the solver's counterexample.
use bytes::{Bytes, BytesMut};
use std::io::ErrorKind;
use std::pin::Pin;
use tarpc::ServerError;
use tokio_serde::{formats::{Bincode, Json}, Deserializer, Serializer};

#[path = "../../harness/wire/src/kinds.rs"]
mod kinds;
use kinds::{KINDS, PORTABLE};

fn expect(i: usize) -> ErrorKind { if i < PORTABLE { KINDS[i] } else { ErrorKind::Other } }
fn selected() -> Vec<usize> {
    match std::env::var("VERIF_KIND_INDEX") { Ok(s) => vec![s.parse().unwrap()], Err(_) => (0..KINDS.len()).collect() }
}

#[test]
fn bincode_codec_round_trips_error_kinds() {
    let mut bad = vec![];
    for i in selected() {
        let e = ServerError::new(KINDS[i], String::new());
        let mut codec: Bincode<ServerError, ServerError> = Bincode::default();
        let bytes: Bytes = Pin::new(&mut codec).serialize(&e).unwrap();
        let back: ServerError = Pin::new(&mut codec).deserialize(&BytesMut::from(&bytes[..])).unwrap();
        if back.kind != expect(i) { bad.push((KINDS[i], back.kind)); }
    }
    println!("MISMATCHES(bincode): {:?}", bad);
    assert!(bad.is_empty(), "error kinds changed in transit over tokio_serde Bincode: {:?}", bad);
}
#[test]
fn json_codec_round_trips_error_kinds() {
    let mut bad = vec![];
    for i in selected() {
        let e = ServerError::new(KINDS[i], String::new());
        let mut codec: Json<ServerError, ServerError> = Json::default();
        let bytes: Bytes = Pin::new(&mut codec).serialize(&e).unwrap();
        let back: ServerError = Pin::new(&mut codec).deserialize(&BytesMut::from(&bytes[..])).unwrap();
        if back.kind != expect(i) { bad.push((KINDS[i], back.kind)); }
    }
    println!("MISMATCHES(json): {:?}", bad);
    assert!(bad.is_empty(), "error kinds changed in transit over tokio_serde Json: {:?}", bad);
}
