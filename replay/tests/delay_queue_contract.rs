//! Validates the environment contract used by the K2 harnesses (overlay `delay_queue_insert_ok`)
//! against the real tokio_util::time::DelayQueue at the boundary of the wheel's range.
use std::time::Duration;
use tokio_util::time::DelayQueue;

const MAX_MS: u64 = (1u64 << 36) - 1;

fn inserts_ok(timeout: Duration, advance: Duration) -> bool {
    let rt = tokio::runtime::Builder::new_current_thread().enable_time().start_paused(true).build().unwrap();
    rt.block_on(async move {
        let r = tokio::spawn(async move {
            let mut q: DelayQueue<u64> = DelayQueue::new();
            // age the queue without polling it: the wheel's `elapsed` stays at 0 (lag = age)
            tokio::time::advance(advance).await;
            q.insert(1, timeout);
        }).await;
        r.is_ok()
    })
}

#[test]
fn boundary_of_the_wheel_range() {
    // fresh queue: exactly MAX_MS is accepted, one more millisecond is not
    assert!(inserts_ok(Duration::from_millis(MAX_MS), Duration::ZERO));
    assert!(!inserts_ok(Duration::from_millis(MAX_MS + 1), Duration::ZERO));
    // sub-millisecond remainders round UP
    assert!(!inserts_ok(Duration::from_millis(MAX_MS) + Duration::from_nanos(1), Duration::ZERO));
    // an unpolled (lagging) queue has less headroom: age counts against the range
    assert!(inserts_ok(Duration::from_millis(MAX_MS - 5_000), Duration::from_secs(5)));
    assert!(!inserts_ok(Duration::from_millis(MAX_MS - 4_999), Duration::from_secs(5)));
    // zero and tiny timeouts are fine
    assert!(inserts_ok(Duration::ZERO, Duration::ZERO));
    assert!(inserts_ok(Duration::from_nanos(1), Duration::from_secs(100)));
}
