//! Prints what the REAL util::serde error-kind functions do under the real codecs, one line per
//! (codec, kind): `TABLE <codec> <Kind> <Got|ERR>`; and the discriminant of every stable kind:
//! `DISCR <Kind> <n>`.  Consumed by /verif/mir2smt to validate the MIR->SMT translation.
use bincode::Options;
use tarpc::ServerError;
#[path = "../../harness/wire/src/kinds.rs"]
mod kinds;
use kinds::KINDS;

#[test]
fn dump() {
    for k in KINDS {
        println!("DISCR {:?} {}", k, k as u8);
        let e = ServerError::new(k, String::new());
        let v = bincode::DefaultOptions::new().serialize(&e).unwrap();
        let r: Result<ServerError, _> = bincode::DefaultOptions::new().deserialize(&v);
        println!("TABLE varint {:?} {}", k, r.map(|e| format!("{:?}", e.kind)).unwrap_or("ERR".into()));
        let v = bincode::serialize(&e).unwrap();
        let r: Result<ServerError, _> = bincode::deserialize(&v);
        println!("TABLE fixint {:?} {}", k, r.map(|e| format!("{:?}", e.kind)).unwrap_or("ERR".into()));
        let v = serde_json::to_string(&e).unwrap();
        let r: Result<ServerError, _> = serde_json::from_str(&v);
        println!("TABLE json {:?} {}", k, r.map(|e| format!("{:?}", e.kind)).unwrap_or("ERR".into()));
    }
}
