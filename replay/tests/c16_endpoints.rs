//! Real-endpoint replay for C16: a peer-chosen (server) or caller-chosen (client) deadline is
//! driven through the REAL code paths under a tokio runtime — bytes on a duplex stream ->
//! length-delimited framing -> tokio_serde Bincode -> BaseChannel (server), and
//! client::new + Channel::call (client) — and any panic is reported.
//!   VERIF_SECS / VERIF_NANOS : the wire duration (server, decode) or the span from now (client)
//!   VERIF_SUBSCRIBER = none | fmt : which tracing subscriber is installed
use bincode::Options;
use futures::prelude::*;
use serde::Serialize;
use std::time::{Duration, Instant};
use tarpc::server::BaseChannel;
use tarpc::{context, ClientMessage, Response};
use tokio_serde::formats::Bincode;
use tokio_util::codec::{Framed, LengthDelimitedCodec};

fn secs() -> u64 { std::env::var("VERIF_SECS").ok().and_then(|s| s.parse().ok()).unwrap_or(3 * 365 * 86400) }
fn nanos() -> u32 { std::env::var("VERIF_NANOS").ok().and_then(|s| s.parse().ok()).unwrap_or(0) }
fn subscriber() {
    if std::env::var("VERIF_SUBSCRIBER").as_deref() == Ok("fmt") {
        let _ = tracing_subscriber::fmt().with_max_level(tracing::Level::TRACE).with_writer(std::io::sink).try_init();
    }
}

// Look-alikes with the same serde layout as tarpc's types, so that ANY duration can be put on
// the wire (tarpc's own Context can only hold what Instant can represent).
#[derive(Serialize)]
struct WDur { secs: u64, nanos: u32 }
#[derive(Serialize)]
struct WTrace { trace_id: [u8; 16], span_id: u64, sampling_decision: u32 }
#[derive(Serialize)]
struct WCtx { deadline: WDur, trace_context: WTrace }
#[derive(Serialize)]
struct WReq { context: WCtx, id: u64, message: u32 }
#[derive(Serialize)]
enum WMsg { Request(WReq) }
fn request_bytes(id: u64) -> Vec<u8> {
    bincode::DefaultOptions::new().serialize(&WMsg::Request(WReq {
        context: WCtx { deadline: WDur { secs: secs(), nanos: nanos() }, trace_context: WTrace { trace_id: [7; 16], span_id: 9, sampling_decision: 1 } },
        id, message: 5 })).unwrap()
}

/// K1: the decoder alone.
#[test]
fn decode_context_with_peer_duration() {
    subscriber();
    let bytes = bincode::DefaultOptions::new().serialize(&WCtx { deadline: WDur { secs: secs(), nanos: nanos() },
        trace_context: WTrace { trace_id: [1; 16], span_id: 2, sampling_decision: 0 } }).unwrap();
    let r = std::panic::catch_unwind(|| bincode::DefaultOptions::new().deserialize::<context::Context>(&bytes).map(|_| ()));
    println!("DECODE secs={} nanos={}: {:?}", secs(), nanos(), r.as_ref().map(|x| x.is_ok()).map_err(|_| "PANIC"));
    assert!(r.is_ok(), "decoding a peer-supplied deadline panicked");
}

/// K1+K2 server: the frame arrives on a byte stream; the channel must survive it and still
/// serve a well-formed probe request afterwards.
#[tokio::test]
async fn server_channel_survives_peer_deadline() {
    subscriber();
    let (client_io, server_io) = tokio::io::duplex(1 << 16);
    let transport = tarpc::serde_transport::new(
        Framed::new(server_io, LengthDelimitedCodec::new()), Bincode::<ClientMessage<u32>, Response<u32>>::default());
    let channel = BaseChannel::with_defaults(transport);
    let mut raw = Framed::new(client_io, LengthDelimitedCodec::new());
    raw.send(request_bytes(1).into()).await.unwrap();
    // a well-formed probe with the default deadline
    let probe = ClientMessage::Request(tarpc::Request { context: context::current(), id: 2, message: 6u32 });
    raw.send(bincode::DefaultOptions::new().serialize(&probe).unwrap().into()).await.unwrap();
    let h = tokio::spawn(async move {
        let mut ch = Box::pin(channel);
        let mut seen = vec![];
        for _ in 0..2 {
            match tokio::time::timeout(Duration::from_millis(500), ch.next()).await {
                Ok(Some(Ok(r))) => seen.push(r.request.id),
                Ok(Some(Err(e))) => { println!("channel error: {e:?}"); break; }
                _ => break,
            }
        }
        seen
    });
    let r = h.await;
    println!("SERVER secs={}: {:?}", secs(), r.as_ref().map_err(|e| e.is_panic()));
    assert!(!matches!(&r, Err(e) if e.is_panic()), "server channel task panicked on a peer-supplied deadline");
    let seen = r.unwrap();
    assert!(seen.contains(&2), "channel stopped serving well-formed traffic after the odd deadline (saw {seen:?})");
}

/// K2 client: a caller-chosen deadline must not kill the dispatch.
#[tokio::test]
async fn client_dispatch_survives_caller_deadline() {
    subscriber();
    let (tx, rx) = tarpc::transport::channel::unbounded();
    let _keep: tarpc::transport::channel::UnboundedChannel<ClientMessage<u32>, Response<u32>> = rx;
    let c = tarpc::client::new::<u32, u32, _>(tarpc::client::Config::default(), tx);
    let d = tokio::spawn(c.dispatch);
    let ch = c.client;
    let mut ctx = context::current();
    let far = match Instant::now().checked_add(Duration::new(secs(), nanos())) {
        Some(i) => i,
        None => { println!("CLIENT: span not representable as an Instant, a local caller cannot construct it"); return; }
    };
    ctx.deadline = far;
    let call = tokio::spawn(async move { tokio::time::timeout(Duration::from_millis(300), ch.call(ctx, 1)).await.is_err() });
    let call = call.await;
    let disp = tokio::time::timeout(Duration::from_millis(300), d).await;
    println!("CLIENT secs={}: call={:?} dispatch={:?}", secs(), call.as_ref().map_err(|e| e.is_panic()),
        disp.as_ref().map(|j| j.as_ref().map(|x| x.is_ok()).map_err(|e| e.is_panic())));
    assert!(!matches!(&call, Err(e) if e.is_panic()), "Channel::call panicked");
    assert!(!matches!(&disp, Ok(Err(e)) if e.is_panic()), "client dispatch panicked on a caller-supplied deadline");
}
