//! Real-endpoint replay for C12 ("a request is refused only if L requests really were in flight
//! when it was read"): a REAL BaseChannel with max_concurrent_requests(L) over the in-memory
//! transport.  L requests are in flight; the peer then sends Cancel for one of them followed by a
//! new Request, and only afterwards is the channel polled.  BaseChannel::poll_next processes the
//! Cancel (L-1 in flight) and reads the Request in the same call — after MaxRequests compared the
//! count with the limit.
//!   VERIF_LIMIT (default 1)
use futures::{prelude::*, task::noop_waker_ref};
use std::task::{Context, Poll};
use std::time::{Duration, Instant};
use tarpc::server::{BaseChannel, Channel};
use tarpc::{context, trace, transport, ClientMessage, Request, Response};

fn limit() -> usize { std::env::var("VERIF_LIMIT").ok().and_then(|s| s.parse().ok()).unwrap_or(1) }
fn request(id: u64) -> ClientMessage<u32> {
    let mut context = context::current();
    context.deadline = Instant::now() + Duration::from_secs(60);
    ClientMessage::Request(Request { context, id, message: id as u32 })
}

#[tokio::test]
async fn request_after_cancel_in_the_same_poll_is_not_throttled() {
    let l = limit().max(1);
    let (mut client, server): (
        transport::channel::UnboundedChannel<Response<u32>, ClientMessage<u32>>,
        transport::channel::UnboundedChannel<ClientMessage<u32>, Response<u32>>,
    ) = transport::channel::unbounded();
    let channel = BaseChannel::with_defaults(server).max_concurrent_requests(l);
    futures::pin_mut!(channel);
    let cx = &mut Context::from_waker(noop_waker_ref());
    let mut held = Vec::new();
    for id in 1..=l as u64 {
        client.send(request(id)).await.unwrap();
        match channel.as_mut().poll_next(cx) {
            Poll::Ready(Some(Ok(t))) => { assert_eq!(t.request.id, id); held.push(t); }
            other => panic!("setup: request {id} should be handed over, got {other:?}"),
        }
    }
    assert_eq!(channel.in_flight_requests(), l);
    // Cancel(1) then Request(100), both on the wire before the next poll
    client.send(ClientMessage::Cancel { trace_context: trace::Context::default(), request_id: 1 }).await.unwrap();
    client.send(request(100)).await.unwrap();
    let mut handed = None;
    for _ in 0..4 {
        match channel.as_mut().poll_next(cx) {
            Poll::Ready(Some(Ok(t))) => { handed = Some(t.request.id); held.push(t); break; }
            Poll::Pending => {}
            other => panic!("unexpected channel result: {other:?}"),
        }
        let _ = channel.as_mut().poll_flush(cx);
    }
    let mut throttled = vec![];
    while let Poll::Ready(Some(r)) = client.poll_next_unpin(cx) {
        let r = r.unwrap();
        if matches!(&r.message, Err(e) if e.kind == std::io::ErrorKind::WouldBlock) { throttled.push(r.request_id); }
    }
    println!("LIMIT={} handed={:?} throttled={:?} in_flight_now={}", l, handed, throttled, channel.in_flight_requests());
    assert!(throttled.is_empty() && handed == Some(100),
            "request 100 was read when only {} of {} allowed requests were in flight, yet it was refused (throttled: {:?})", l - 1, l, throttled);
}
