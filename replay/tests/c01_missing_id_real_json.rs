//! Real-codec replay for C01's wire harnesses: a frame without `request_id` is pushed through the
//! Json codec tarpc ships (tokio_serde::formats::Json).  It must be a decode error; if it decodes,
//! the id it decodes to is printed (that is the call a dispatch would hand the body to).
use bytes::BytesMut;
use std::pin::Pin;
use tarpc::{ClientMessage, Response};
use tokio_serde::{formats::Json, Deserializer};

fn body() -> u32 { std::env::var("VERIF_BODY").ok().and_then(|s| s.parse().ok()).unwrap_or(7) }

#[test]
fn response_without_id_is_rejected() {
    let frame = format!("{{\"message\":{{\"Ok\":{}}}}}", body());
    let mut codec: Json<Response<u32>, Response<u32>> = Json::default();
    let r = Pin::new(&mut codec).deserialize(&BytesMut::from(frame.as_bytes()));
    if let Ok(resp) = &r { println!("DECODED-AS request_id={} from frame {}", resp.request_id, frame); }
    assert!(r.is_err(), "a response frame without a request id decoded");
    // sanity: the same frame with an id does decode, so the rejection above is about the id
    let full = format!("{{\"request_id\":3,\"message\":{{\"Ok\":{}}}}}", body());
    let ok = Pin::new(&mut codec).deserialize(&BytesMut::from(full.as_bytes())).expect("well-formed frame decodes");
    assert_eq!(ok.request_id, 3);
}
#[test]
fn cancel_without_id_is_rejected() {
    let frame = "{\"Cancel\":{\"trace_context\":{\"trace_id\":[0,0,0,0,0,0,0,0,0,0,0,0,0,0,0,0],\"span_id\":0,\"sampling_decision\":\"Unsampled\"}}}";
    let mut codec: Json<ClientMessage<u32>, ClientMessage<u32>> = Json::default();
    let r = Pin::new(&mut codec).deserialize(&BytesMut::from(frame.as_bytes()));
    if let Ok(ClientMessage::Cancel { request_id, .. }) = &r { println!("DECODED-AS request_id={}", request_id); }
    assert!(r.is_err(), "a cancellation frame without a request id decoded");
    let full = "{\"Cancel\":{\"trace_context\":{\"trace_id\":[0,0,0,0,0,0,0,0,0,0,0,0,0,0,0,0],\"span_id\":0,\"sampling_decision\":\"Unsampled\"},\"request_id\":5}}";
    match Pin::new(&mut codec).deserialize(&BytesMut::from(full.as_bytes())).expect("well-formed cancel decodes") {
        ClientMessage::Cancel { request_id, .. } => assert_eq!(request_id, 5),
        _ => panic!("not a cancel"),
    }
}
