//! Native companions of the MIR->SMT concurrency engine (mir2smt/conc.py).
//!  * `sequential_picks`: the picks of the real RoundRobin for 4 sequential calls over 3 backends
//!    (translator validation: must equal the model's picks under the sequential schedule).
//!  * `threads_stay_balanced`: stress replay of a schedule counterexample — real OS threads call
//!    clones of one RoundRobin stub; the final per-backend counts must differ by at most one.
//!    Probabilistic: a race found by the solver usually shows within the first rounds.
use std::sync::atomic::{AtomicUsize, Ordering};
use std::sync::Arc;
use tarpc::client::stub::{load_balance::RoundRobin, Stub};
use tarpc::client::RpcError;
use tarpc::context;

#[derive(Clone)]
struct B(usize, Arc<Vec<AtomicUsize>>);
impl Stub for B {
    type Req = u32;
    type Resp = u32;
    async fn call(&self, _: context::Context, _: u32) -> Result<u32, RpcError> {
        self.1[self.0].fetch_add(1, Ordering::Relaxed);
        Ok(self.0 as u32)
    }
}
fn stub(n: usize) -> (RoundRobin<B>, Arc<Vec<AtomicUsize>>) {
    let hits = Arc::new((0..n).map(|_| AtomicUsize::new(0)).collect::<Vec<_>>());
    (RoundRobin::new((0..n).map(|i| B(i, hits.clone())).collect()), hits)
}

#[test]
fn sequential_picks() {
    let (rr, _) = stub(3);
    let mut picks = vec![];
    for i in 0..4 {
        picks.push(futures::executor::block_on(rr.call(context::current(), i)).unwrap());
    }
    println!("PICKS {:?}", picks);
}

#[test]
fn threads_stay_balanced() {
    for n in [2usize, 3] {
        for round in 0..6 {
            let (rr, hits) = stub(n);
            let threads: Vec<_> = (0..8).map(|_| {
                let rr = rr.clone();
                std::thread::spawn(move || { for i in 0..60_000u32 { futures::executor::block_on(rr.call(context::current(), i)).unwrap(); } })
            }).collect();
            for t in threads { t.join().unwrap(); }
            let counts: Vec<usize> = hits.iter().map(|h| h.load(Ordering::Relaxed)).collect();
            let (mx, mn) = (counts.iter().max().unwrap(), counts.iter().min().unwrap());
            println!("COUNTS n={} round={} {:?}", n, round, counts);
            assert!(mx - mn <= 1, "unbalanced after concurrent calls: {:?}", counts);
        }
    }
}
