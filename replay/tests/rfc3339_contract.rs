//! Validates the contract the K3 harnesses use for humantime's RFC 3339 Display.
use std::fmt::Write;
use std::time::{Duration, UNIX_EPOCH};

fn shows(secs: u64) -> bool {
    let mut s = String::new();
    write!(s, "{}", humantime::format_rfc3339(UNIX_EPOCH + Duration::from_secs(secs))).is_ok()
}
#[test]
fn display_fails_from_year_10000() {
    assert!(shows(0));
    assert!(shows(253_402_300_799));
    assert!(!shows(253_402_300_800));
    assert!(!shows(u32::MAX as u64 * 1000));
    // before the epoch the formatter panics
    let r = std::panic::catch_unwind(|| { let mut s = String::new(); let _ = write!(s, "{}", humantime::format_rfc3339(UNIX_EPOCH - Duration::from_secs(1))); });
    assert!(r.is_err());
    // a Display error becomes a panic as soon as an io::Write sink is involved (what fmt subscribers do)
    let r = std::panic::catch_unwind(|| { use std::io::Write; let mut v: Vec<u8> = Vec::new(); let _ = write!(v, "{}", humantime::format_rfc3339(UNIX_EPOCH + Duration::from_secs(253_402_300_800))); });
    assert!(r.is_err());
}
