//! Validates the integer conventions of the harness-side wire model (harness/wire/src/wire.rs)
//! against the REAL codecs tarpc ships: bincode::DefaultOptions (= tokio_serde::formats::Bincode),
//! bincode fixed-width (bincode::serialize) and serde_json.  For a grid of boundary values it
//! writes a signed / unsigned integer with the real codec, reads it back as the other type, and
//! compares with what the model's read_unsigned / read_signed predict.
#[path = "../../harness/wire/src/wire.rs"]
#[allow(dead_code)]
mod wire;
use bincode::Options;
use wire::{read_signed, read_unsigned, Mode, Tok, SINT, UINT};

fn grid() -> Vec<i64> {
    let mut v = vec![];
    for b in [0i64, 1, 2, 3, 7, 8, 16, 17, 18, 63, 64, 125, 126, 127, 128, 250, 251, 252, 255, 256, 65535, 65536,
              i32::MAX as i64, i32::MAX as i64 + 1, u32::MAX as i64, u32::MAX as i64 + 1, i64::MAX] {
        v.push(b);
        v.push(-b);
        v.push(b.wrapping_sub(1));
    }
    v.push(i64::MIN);
    v
}

#[test]
fn varint_i32_written_u32_read() {
    for x in grid() {
        if x < i32::MIN as i64 || x > i32::MAX as i64 { continue; }
        let bytes = bincode::DefaultOptions::new().serialize(&(x as i32)).unwrap();
        let real: Result<u32, _> = bincode::DefaultOptions::new().deserialize(&bytes);
        let model = read_unsigned(Mode::Varint, Tok { k: SINT, w: 32, s: 0, v: x as u64 }, 32);
        assert_eq!(real.ok().map(|v| v as u64), model.ok(), "i32 {} -> u32 (varint)", x);
    }
}
#[test]
fn varint_u32_written_u32_and_i32_read() {
    for x in grid() {
        if x < 0 || x > u32::MAX as i64 { continue; }
        let bytes = bincode::DefaultOptions::new().serialize(&(x as u32)).unwrap();
        let real: Result<u32, _> = bincode::DefaultOptions::new().deserialize(&bytes);
        let model = read_unsigned(Mode::Varint, Tok { k: UINT, w: 32, s: 0, v: x as u64 }, 32);
        assert_eq!(real.ok().map(|v| v as u64), model.ok(), "u32 {} -> u32 (varint)", x);
        let real: Result<i32, _> = bincode::DefaultOptions::new().deserialize(&bytes);
        let model = read_signed(Mode::Varint, Tok { k: UINT, w: 32, s: 0, v: x as u64 }, 32);
        assert_eq!(real.ok().map(|v| v as i64), model.ok(), "u32 {} -> i32 (varint)", x);
    }
}
#[test]
fn varint_u64_written_u64_read_and_i64() {
    for x in grid() {
        let bytes = bincode::DefaultOptions::new().serialize(&(x as u64)).unwrap();
        let real: Result<u64, _> = bincode::DefaultOptions::new().deserialize(&bytes);
        let model = read_unsigned(Mode::Varint, Tok { k: UINT, w: 64, s: 0, v: x as u64 }, 64);
        assert_eq!(real.ok(), model.ok(), "u64 {} -> u64 (varint)", x as u64);
        let bytes = bincode::DefaultOptions::new().serialize(&x).unwrap();
        let real: Result<i64, _> = bincode::DefaultOptions::new().deserialize(&bytes);
        let model = read_signed(Mode::Varint, Tok { k: SINT, w: 64, s: 0, v: x as u64 }, 64);
        assert_eq!(real.ok(), model.ok(), "i64 {} -> i64 (varint)", x);
        let real: Result<u64, _> = bincode::DefaultOptions::new().deserialize(&bytes);
        let model = read_unsigned(Mode::Varint, Tok { k: SINT, w: 64, s: 0, v: x as u64 }, 64);
        assert_eq!(real.ok(), model.ok(), "i64 {} -> u64 (varint)", x);
    }
}
#[test]
fn fixint_i32_written_u32_read() {
    for x in grid() {
        if x < i32::MIN as i64 || x > i32::MAX as i64 { continue; }
        let bytes = bincode::serialize(&(x as i32)).unwrap();
        let real: Result<u32, _> = bincode::deserialize(&bytes);
        let model = read_unsigned(Mode::Fixint, Tok { k: SINT, w: 32, s: 0, v: x as u64 }, 32);
        assert_eq!(real.ok().map(|v| v as u64), model.ok(), "i32 {} -> u32 (fixint)", x);
    }
}
#[test]
fn json_i32_written_u32_read() {
    for x in grid() {
        if x < i32::MIN as i64 || x > i32::MAX as i64 { continue; }
        let text = serde_json::to_string(&(x as i32)).unwrap();
        let real: Result<u32, _> = serde_json::from_str(&text);
        let model = read_unsigned(Mode::Json, Tok { k: SINT, w: 32, s: 0, v: x as u64 }, 32);
        assert_eq!(real.ok().map(|v| v as u64), model.ok(), "i32 {} -> u32 (json)", x);
    }
    for x in grid() {
        let text = serde_json::to_string(&(x as u64)).unwrap();
        let real: Result<u32, _> = serde_json::from_str(&text);
        let model = read_unsigned(Mode::Json, Tok { k: UINT, w: 64, s: 0, v: x as u64 }, 32);
        assert_eq!(real.ok().map(|v| v as u64), model.ok(), "u64 {} -> u32 (json)", x as u64);
    }
}
/// tokio_serde's Bincode codec really is bincode::DefaultOptions (varint), not bincode::serialize.
#[test]
fn tokio_serde_bincode_is_varint() {
    use bytes::Bytes;
    use std::pin::Pin;
    use tokio_serde::{formats::Bincode, Serializer};
    let mut codec: Bincode<u32, u32> = Bincode::default();
    let b: Bytes = Pin::new(&mut codec).serialize(&300u32).unwrap();
    assert_eq!(&b[..], &bincode::DefaultOptions::new().serialize(&300u32).unwrap()[..]);
    assert_ne!(&b[..], &bincode::serialize(&300u32).unwrap()[..]);
}
