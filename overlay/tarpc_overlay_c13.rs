// C13 — in-crate overlay for the per-key channel limiter (server/limits/channels_per_key.rs),
// injected as a child module of that file's parent so it can call the crate-private constructor.
// Real code under check: MaxChannelsPerKey::{new, poll_next, poll_listener, handle_new_channel,
// increment_channels_for_key, poll_closed_channels}, Tracker's Drop, TrackedChannel.
// Under Kani tokio's mpsc and FnvHashMap are replaced by the models in verif_env.rs; the native
// replay runs the same harness against the REAL tokio mpsc and hash map.
#![allow(missing_docs, dead_code, unused_imports, static_mut_refs, clippy::all)]
use crate::nd::*;
use super::channels_per_key::{MaxChannelsPerKey, TrackedChannel};
use futures::Stream;
use std::pin::Pin;
use std::task::{Context, Poll, Waker};

/// A "channel": all the limiter needs from it is its key.
pub struct Conn(pub u8);
/// Listener the harness feeds by hand: at most one pending arrival.
static mut PENDING: Option<u8> = None;
static mut CONSUMED: usize = 0;
struct Listener;
impl Stream for Listener {
    type Item = Conn;
    fn poll_next(self: Pin<&mut Self>, _: &mut Context<'_>) -> Poll<Option<Conn>> {
        match unsafe { PENDING.take() } {
            Some(k) => { unsafe { CONSUMED += 1; } Poll::Ready(Some(Conn(k))) }
            None => Poll::Pending,
        }
    }
}
// (the key function is a closure, not a `fn` pointer: CBMC resolves calls through function
//  pointers by signature, which drags unrelated functions - tracing's registrar - in)
fn poll<F: Fn(&Conn) -> u8>(l: &mut Pin<Box<MaxChannelsPerKey<Listener, u8, F>>>) -> Option<TrackedChannel<Conn, u8>> {
    let mut cx = Context::from_waker(Waker::noop());
    match l.as_mut().poll_next(&mut cx) {
        Poll::Ready(Some(c)) => Some(c),
        Poll::Ready(None) => { assert!(false); None }
        Poll::Pending => None,
    }
}

const SLOTS: usize = 3;
/// One run: `steps` operations chosen by the solver — a connection with key 0 or 1 arrives (and
/// the limiter is polled), or one of the live yielded channels is closed (dropped).  After every
/// operation: at most `limit` yielded channels per key are alive, and an arrival is shed only if
/// `limit` channels with its key are alive at that moment.
fn run(limit: u32, steps: usize) {
    let mut l = Box::pin(MaxChannelsPerKey::new(Listener, limit, |c: &Conn| c.0));
    let mut live: [Option<TrackedChannel<Conn, u8>>; SLOTS] = [None, None, None];
    let mut live_key: [u8; SLOTS] = [0; SLOTS];
    let mut alive = [0u32; 2];
    let mut shed_seen = false;
    let mut reuse_seen = false;
    let mut i = 0;
    while i < steps {
        let op = any_u8();
        assume(op <= 1);
        if op == 0 {
            // arrival
            let k = any_u8();
            assume(k <= 1);
            let mut slot = SLOTS;
            let mut j = 0;
            while j < SLOTS { if live[j].is_none() && slot == SLOTS { slot = j; } j += 1; }
            assume(slot < SLOTS);                 // the harness tracks at most SLOTS live channels
            unsafe { PENDING = Some(k); }
            let before = unsafe { CONSUMED };
            let got = poll(&mut l);
            assert!(unsafe { CONSUMED } == before + 1);      // the arrival was looked at
            match got {
                Some(c) => {
                    assert!(c.get_ref().0 == k);
                    alive[k as usize] += 1;
                    // never more than `limit` yielded channels with one key alive
                    assert!(alive[k as usize] <= limit);
                    live[slot] = Some(c);
                    live_key[slot] = k;
                }
                None => {
                    // shed: only allowed if `limit` channels with this key are alive right now
                    assert!(alive[k as usize] >= limit);
                    shed_seen = true;
                }
            }
        } else {
            // close one live channel
            let j = any_u8() as usize;
            assume(j < SLOTS && live[j].is_some());
            let k = live_key[j];
            live[j] = None;                       // drops the TrackedChannel (and maybe its tracker)
            alive[k as usize] -= 1;
            if alive[k as usize] == 0 { reuse_seen = true; }
        }
        i += 1;
    }
    witness!(shed_seen, "an arrival was shed at the limit");
    witness!(reuse_seen && alive[0] + alive[1] > 0, "a key's last channel closed and capacity was used again");
    let mut j = 0;
    while j < SLOTS { std::mem::forget(live[j].take()); j += 1; }
    std::mem::forget(l);
}

/// Directed scenario (the race the property text describes): open k, close it, open k again,
/// then a third connection with the same key while the second is alive must be shed.
fn stale_close_scenario() {
    let mut l = Box::pin(MaxChannelsPerKey::new(Listener, 1, |c: &Conn| c.0));
    let k = any_u8();
    unsafe { PENDING = Some(k); }
    let c1 = poll(&mut l);
    assert!(c1.is_some());
    drop(c1);                                   // close notification queued
    unsafe { PENDING = Some(k); }
    let c2 = poll(&mut l);                      // arrival and notification pending at the same poll
    assert!(c2.is_some());                      // capacity was freed: must be admitted
    unsafe { PENDING = Some(k); }
    let c3 = poll(&mut l);
    assert!(c3.is_none());                      // c2 is alive: limit 1 reached
    witness!(k == 7, "some key");
    witness!(k == 0, "key zero");
    std::mem::forget(c2); std::mem::forget(c3); std::mem::forget(l);
}

/// Limit 1, two keys: a key at its limit sheds further arrivals of THAT key only; closing frees it.
fn two_keys_scenario() {
    let mut l = Box::pin(MaxChannelsPerKey::new(Listener, 1, |c: &Conn| c.0));
    let k = any_u8();
    let k2 = any_u8();
    assume(k != k2);
    unsafe { PENDING = Some(k); }
    let c1 = poll(&mut l);
    assert!(c1.is_some());
    unsafe { PENDING = Some(k); }
    let shed = poll(&mut l);
    assert!(shed.is_none());                    // k is at its limit
    unsafe { PENDING = Some(k2); }
    let other = poll(&mut l);
    assert!(other.is_some());                   // another key is not affected
    drop(c1);
    unsafe { PENDING = Some(k); }
    let again = poll(&mut l);
    assert!(again.is_some());                   // the close freed k's capacity
    witness!(k < k2, "keys in one order");
    witness!(k > k2, "keys in the other order");
    std::mem::forget(shed); std::mem::forget(other); std::mem::forget(again); std::mem::forget(l);
}
/// Limit 2, one key: two admitted, the third shed, one closes, the next is admitted, the one
/// after that is shed again (the count did not drift).
fn limit2_scenario() {
    let mut l = Box::pin(MaxChannelsPerKey::new(Listener, 2, |c: &Conn| c.0));
    let k = any_u8();
    unsafe { PENDING = Some(k); }
    let a = poll(&mut l);
    unsafe { PENDING = Some(k); }
    let b = poll(&mut l);
    assert!(a.is_some() && b.is_some());
    unsafe { PENDING = Some(k); }
    let c = poll(&mut l);
    assert!(c.is_none());
    drop(a);
    unsafe { PENDING = Some(k); }
    let d = poll(&mut l);
    assert!(d.is_some());
    unsafe { PENDING = Some(k); }
    let e = poll(&mut l);
    assert!(e.is_none());
    witness!(k == 3, "some key");
    witness!(k == 200, "another key");
    std::mem::forget(b); std::mem::forget(c); std::mem::forget(d); std::mem::forget(e); std::mem::forget(l);
}

/// Limit 1: the second arrival of a key is shed, an arrival of another key is admitted.
fn shed_only_own_key() {
    let mut l = Box::pin(MaxChannelsPerKey::new(Listener, 1, |c: &Conn| c.0));
    let k = any_u8();
    let k2 = any_u8();
    assume(k != k2);
    unsafe { PENDING = Some(k); }
    let c1 = poll(&mut l);
    assert!(c1.is_some());
    unsafe { PENDING = Some(k); }
    let shed = poll(&mut l);
    assert!(shed.is_none());
    unsafe { PENDING = Some(k2); }
    let other = poll(&mut l);
    assert!(other.is_some());
    witness!(k < k2, "keys in one order");
    witness!(k > k2, "keys in the other order");
    std::mem::forget(c1); std::mem::forget(shed); std::mem::forget(other); std::mem::forget(l);
}
/// Limit 2: two channels of a key are admitted, the third is shed.
fn limit2_third_shed() {
    let mut l = Box::pin(MaxChannelsPerKey::new(Listener, 2, |c: &Conn| c.0));
    let k = any_u8();
    unsafe { PENDING = Some(k); }
    let a = poll(&mut l);
    unsafe { PENDING = Some(k); }
    let b = poll(&mut l);
    assert!(a.is_some() && b.is_some());
    unsafe { PENDING = Some(k); }
    let c = poll(&mut l);
    assert!(c.is_none());
    witness!(k == 3, "some key");
    witness!(k == 200, "another key");
    std::mem::forget(a); std::mem::forget(b); std::mem::forget(c); std::mem::forget(l);
}

harnesses! {
    fn c13_shed_only_own_key() [unwind 3] { shed_only_own_key() }
    fn c13_limit2_third_shed() [unwind 3] { limit2_third_shed() }
    fn c13_two_keys_independent() [unwind 4] { two_keys_scenario() }
    fn c13_stale_close_notification() [unwind 3] { stale_close_scenario() }
    fn c13_limit1_steps3() [unwind 5] { run(1, 3) }
}

#[cfg(all(test, verif_replay))]
#[test]
fn verif_replay_entry_c13() {
    let name = std::env::var("VERIF_REPLAY_HARNESS").expect("VERIF_REPLAY_HARNESS");
    load_values();
    for (n, f) in HARNESSES {
        if *n == name { f(); println!("REPLAY-PASSED {}", name); return; }
    }
    panic!("unknown harness");
}
