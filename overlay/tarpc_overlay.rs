// In-crate overlay, appended (as `mod verif_overlay`) to a scratch COPY of tarpc/src/lib.rs at
// check time; never written into /repo.  Gives the harnesses access to crate-private items:
// `util::TimeUntil`, and the timer-arming / span-field expressions that vlib extracts textually
// from the copied sources (placeholders @...@ below), so that an edit of those expressions in
// /repo is what gets compiled and checked here.
#![allow(missing_docs, dead_code, unused_imports, static_mut_refs, clippy::all)]
use crate::nd::*;
use crate::util::TimeUntil;
use std::time::{Duration, Instant, SystemTime};

// ---- extracted from tarpc/src/client/in_flight_requests.rs, fn insert_request -------------
/// The `timeout` argument the client passes to `DelayQueue::insert` for a request with `ctx`.
fn client_timer_arg(request_id: u64, ctx: crate::context::Context) -> Duration {
    #[allow(unused_imports)]
    use crate::util::*;
    let _ = request_id;
    @CLIENT_LETS@
    @CLIENT_ARG@
}
// ---- extracted from tarpc/src/server/in_flight_requests.rs, fn start_request --------------
/// The `timeout` argument the server passes to `DelayQueue::insert` for a request with `deadline`.
fn server_timer_arg(request_id: u64, deadline: Instant) -> Duration {
    #[allow(unused_imports)]
    use crate::util::*;
    let _ = request_id;
    @SERVER_LETS@
    @SERVER_ARG@
}
// ---- extracted from the `rpc.deadline` span fields (client.rs `call`, server.rs `start_request`)
/// What the client / server render into the RPC span's `rpc.deadline` field when a subscriber
/// is listening.
fn client_span_deadline(ctx: crate::context::Context) -> humantime::Rfc3339Timestamp {
    #[allow(unused_imports)]
    use crate::util::*;
    @CLIENT_SPAN_EXPR@
}
fn server_span_deadline(request: crate::Request<u32>) -> humantime::Rfc3339Timestamp {
    #[allow(unused_imports)]
    use crate::util::*;
    @SERVER_SPAN_EXPR@
}
/// Environment contract of humantime's RFC 3339 Display (read off the pinned humantime source,
/// validated natively by replay/tests/rfc3339_contract.rs): it panics for times before the Unix
/// epoch and returns fmt::Error from the year 10000 on; a subscriber that writes the field with
/// `{}` turns that error into a panic (std io::Write::write_fmt).  Running the formatter itself
/// under CBMC (64-bit divisions by constants + core::fmt) did not finish in 30 min.
const RFC3339_END_SECS: u64 = 253_402_300_800;
fn renders(t: humantime::Rfc3339Timestamp) -> bool {
    match t.get_ref().duration_since(SystemTime::UNIX_EPOCH) {
        Ok(d) => d.as_secs() < RFC3339_END_SECS,
        Err(_) => false,
    }
}
fn sym_wall() {
    // any wall clock between 1970 and ~2106
    set_wall(any_u32() as i64, 0);
}

// ---- environment contract of tokio_util::time::DelayQueue::insert (constants read from the
// pinned tokio-util source at check time; the model is validated natively at the boundary) ----
const WHEEL_MAX_DURATION_MS: u64 = @WHEEL_MAX_DURATION_MS@;
/// tokio_util::time::ms(duration, Round::Up)
fn ms_up(d: Duration) -> u64 {
    let millis = (d.subsec_nanos() + 1_000_000 - 1) / 1_000_000;
    d.as_secs().saturating_mul(1_000).saturating_add(millis as u64)
}
/// `DelayQueue::insert(value, timeout)` does not panic iff `Instant::now() + timeout` does not
/// overflow and the normalised deadline is within the wheel's range of the wheel's `elapsed`.
/// `since_start` = now - queue creation, `elapsed_ms` = the wheel's clock (<= since_start, it
/// only advances when the queue is polled).
fn delay_queue_insert_ok(now: Instant, since_start: Duration, elapsed_ms: u64, timeout: Duration) -> bool {
    if now.checked_add(timeout).is_none() { return false; }
    let when = match since_start.checked_add(timeout) { Some(d) => ms_up(d), None => return false };
    let when = if when > elapsed_ms { when } else { elapsed_ms };
    when <= elapsed_ms || when - elapsed_ms <= WHEEL_MAX_DURATION_MS
}

/// Largest deadline span for which exact (never-early) enforcement is demanded: 365 days.
const SUPPORTED_SPAN: Duration = Duration::from_secs(365 * 24 * 60 * 60);
/// How long a channel may sit unpolled (wheel lag) and how old a queue may be: 400 days / 30 years.
const MAX_LAG: Duration = Duration::from_secs(400 * 24 * 60 * 60);
const MAX_QUEUE_AGE: Duration = Duration::from_secs(30 * 365 * 24 * 60 * 60);

fn sym_instant() -> Instant {
    let s = any_i64();
    let n = any_u32();
    assume(s >= 0 && n < 1_000_000_000);
    mk_instant(s, n)
}
/// A clock reading a real process can have: up to ~35,000 years of uptime.
fn sym_now() -> Instant {
    let s = any_i64();
    let n = any_u32();
    assume(s >= 0 && s <= (1i64 << 40) && n < 1_000_000_000);
    set_now(s, n);
    mk_instant(s, n)
}
fn ctx_with(deadline: Instant) -> crate::context::Context {
    let mut c: crate::context::Context = unsafe { std::mem::zeroed() };
    c.deadline = deadline;
    c
}

/// Never-early / exact arming, shared by C05 (client) and the server-side slice.
fn arming_is_exact(now: Instant, deadline: Instant, t: Duration) {
    if deadline >= now {
        let span = deadline.duration_since(now);
        // the timer is never due after the deadline ...
        assert!(t <= span);
        // ... and exactly at it whenever the span is one the timer supports
        if span <= SUPPORTED_SPAN { assert!(t == span); }
        witness!(span > Duration::from_secs(1) && span <= SUPPORTED_SPAN, "deadline in the future");
        witness!(span == Duration::ZERO, "deadline exactly now");
    } else {
        // already expired: fires immediately, no wrap-around, no panic
        assert!(t == Duration::ZERO);
        witness!(true, "deadline already passed");
    }
}

harnesses! {
    /// C05: util::TimeUntil for Instant — now + time_until() == deadline for every future
    /// deadline, zero for every past one, for every pair of Instants.
    fn c05_time_until_exact() [unwind 3] {
        let now = sym_instant();
        let (s, n) = instant_parts(now);
        set_now(s, n);
        let deadline = sym_instant();
        let t = deadline.time_until();
        if deadline >= now {
            assert!(now + t == deadline);
            witness!(deadline > now, "future deadline");
        } else {
            assert!(t == Duration::ZERO);
            witness!(true, "past deadline");
        }
    }
    /// C05: queueing time counts — the later the request is transmitted, the shorter the timer,
    /// and the due time (transmission time + timer) never moves.
    fn c05_queueing_counts() [unwind 3] {
        let enqueue = sym_now();
        let deadline = sym_instant();
        let delay_s = any_u32();
        let delay = Duration::new(delay_s as u64, 0);
        let transmit = enqueue + delay;
        let (s, n) = instant_parts(transmit);
        set_now(s, n);
        let t = client_timer_arg(1, ctx_with(deadline));
        arming_is_exact(transmit, deadline, t);
        if deadline >= transmit && deadline.duration_since(transmit) <= SUPPORTED_SPAN {
            assert!(transmit + t == deadline);
        }
    }
    /// C05: the value the client arms its DelayQueue with (extracted expression).
    fn c05_client_arming() [unwind 3] {
        let now = sym_now();
        let deadline = sym_instant();
        let t = client_timer_arg(any_u64(), ctx_with(deadline));
        arming_is_exact(now, deadline, t);
    }
    /// C06: a request that arrives late (any transit/queueing delay on the server side before it
    /// is registered) still expires at its deadline: registration time + timer == deadline.
    fn c06_server_late_registration() [unwind 3] {
        let arrival = sym_now();
        let deadline = sym_instant();
        let delay = Duration::new(any_u32() as u64, any_u32() % 1_000_000_000);
        let registered = arrival + delay;
        let (s, n) = instant_parts(registered);
        set_now(s, n);
        let t = server_timer_arg(any_u64(), deadline);
        arming_is_exact(registered, deadline, t);
        if deadline >= registered && deadline.duration_since(registered) <= SUPPORTED_SPAN {
            assert!(registered + t == deadline);
        }
    }
    /// C06 / C16: the value the server arms its DelayQueue with (extracted expression): never
    /// later than the deadline, exactly at it for spans <= 365 days, zero when already expired.
    fn c16_server_arming_exact() [unwind 3] {
        let now = sym_now();
        let deadline = sym_instant();
        let t = server_timer_arg(any_u64(), deadline);
        arming_is_exact(now, deadline, t);
    }
    /// C16/K2 client: whatever deadline a caller puts in the context, the armed timeout meets
    /// DelayQueue::insert's precondition for every queue age and wheel lag within the stated bounds.
    fn c16_k2_client_timer_precondition() [unwind 3] {
        let now = sym_now();
        let deadline = sym_instant();
        let age = Duration::new(any_u32() as u64, 0);
        let lag = Duration::new(any_u32() as u64, 0);
        assume(age <= MAX_QUEUE_AGE && lag <= MAX_LAG && lag <= age);
        assume(now.checked_sub(age).is_some());
        let elapsed_ms = (age - lag).as_secs() * 1000;
        let t = client_timer_arg(any_u64(), ctx_with(deadline));
        assert!(delay_queue_insert_ok(now, age, elapsed_ms, t));
        witness!(deadline > now + Duration::from_secs(100 * 365 * 86400), "deadline a century away");
        witness!(deadline < now, "deadline in the past");
    }
    /// C16/K3 client: the rpc.deadline span field can be computed and rendered for every deadline.
    fn c16_k3_client_span_field() [unwind 3] {
        let now = sym_now();
        sym_wall();
        let deadline = sym_instant();
        let shown = client_span_deadline(ctx_with(deadline));
        assert!(renders(shown));
        witness!(deadline > now + Duration::from_secs(20_000 * 365 * 86400), "deadline twenty thousand years away");
        witness!(deadline < now, "deadline in the past");
    }
    /// C16/K3 server: same for a peer-chosen deadline.
    fn c16_k3_server_span_field() [unwind 3] {
        let now = sym_now();
        sym_wall();
        let deadline = sym_instant();
        let shown = server_span_deadline(crate::Request { context: ctx_with(deadline), id: any_u64(), message: 0u32 });
        assert!(renders(shown));
        witness!(deadline > now + Duration::from_secs(20_000 * 365 * 86400), "deadline twenty thousand years away");
        witness!(deadline < now, "deadline in the past");
    }
    /// C16/K2 server: same for a peer-chosen deadline.
    fn c16_k2_server_timer_precondition() [unwind 3] {
        let now = sym_now();
        let deadline = sym_instant();
        let age = Duration::new(any_u32() as u64, 0);
        let lag = Duration::new(any_u32() as u64, 0);
        assume(age <= MAX_QUEUE_AGE && lag <= MAX_LAG && lag <= age);
        assume(now.checked_sub(age).is_some());
        let elapsed_ms = (age - lag).as_secs() * 1000;
        let t = server_timer_arg(any_u64(), deadline);
        assert!(delay_queue_insert_ok(now, age, elapsed_ms, t));
        witness!(deadline > now + Duration::from_secs(100 * 365 * 86400), "deadline a century away");
        witness!(deadline < now, "deadline in the past");
    }
}

/// Native replay entry (cargo test --lib with --cfg verif_replay): runs the harness named by
/// VERIF_REPLAY_HARNESS on the values in VERIF_REPLAY_VALUES; a panic = counterexample reproduced.
#[cfg(all(test, verif_replay))]
#[test]
fn verif_replay_entry() {
    let name = std::env::var("VERIF_REPLAY_HARNESS").expect("VERIF_REPLAY_HARNESS");
    load_values();
    for (n, f) in HARNESSES {
        if *n == name {
            f();
            println!("REPLAY-PASSED {}", name);
            return;
        }
    }
    panic!("unknown harness");
}
