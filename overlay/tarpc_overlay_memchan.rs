// C15 — in-crate overlay for the in-memory transport `tarpc::transport::channel::unbounded`
// (tarpc/src/transport/channel.rs).  Real code under check: `unbounded()`, and
// `UnboundedChannel`'s `Stream::poll_next` and `Sink::{poll_ready, start_send, poll_flush,
// poll_close}`.  Under cfg(kani) ONLY the tokio mpsc underneath is the waker-less contract model
// `verif_env::mpsc_closing` (real tokio mpsc makes Kani ICE, DESIGN §1); the native replay of a
// counterexample runs on the real tokio channel.
//
// Property clause decided: everything one end sends comes out of the other end exactly once, in
// the order sent, unchanged; the receiving end reports end-of-stream only after the peer is gone
// AND everything sent before has been delivered; a live idle peer means Pending, not end.
#![allow(missing_docs, dead_code, unused_imports, static_mut_refs, clippy::all)]
use crate::nd::*;
use crate::transport::channel::{unbounded, ChannelError, UnboundedChannel};
use futures::{Sink, Stream};
use std::pin::Pin;
use std::task::{Context, Poll, Waker};

const QMAX: usize = 3;

/// `steps` solver-chosen operations on a pair (a, b): 0 = a sends a symbolic u32 (poll_ready,
/// start_send, poll_flush), 1 = b polls its stream, 2 = a is dropped (at most once; with
/// `close_first`, a.poll_close is called before the drop).  A ghost FIFO says what b must see.
fn schedule(steps: usize) {
    let (a, mut b) = unbounded::<u32, u32>();
    let mut a = Some(a);
    let mut ghost = [0u32; QMAX];
    let mut head = 0usize;
    let mut len = 0usize;
    let mut delivered = 0usize;
    let mut ended = false;
    let mut cx = Context::from_waker(Waker::noop());
    let mut i = 0;
    while i < steps {
        let op = any_u8();
        assume(op <= 2);
        if op == 0 {
            if let Some(tx) = a.as_mut() {
                if len < QMAX {
                    let v = any_u32();
                    // C15 is about what WAS written: a sink that is not ready, or a send that is
                    // refused, means this message was not written (the vacuity witnesses below
                    // make sure that messages do get written and delivered)
                    let r = Pin::new(&mut *tx).poll_ready(&mut cx);
                    let ready = matches!(r, Poll::Ready(Ok(())));
                    std::mem::forget(r);
                    if !ready { i += 1; continue; }
                    let r = Pin::new(&mut *tx).start_send(v);
                    let sent = r.is_ok();
                    std::mem::forget(r);
                    if !sent { i += 1; continue; }
                    let r = Pin::new(&mut *tx).poll_flush(&mut cx);
                    std::mem::forget(r);
                    ghost[(head + len) % QMAX] = v;
                    len += 1;
                }
            }
        } else if op == 1 {
            let r = Pin::new(&mut b).poll_next(&mut cx);
            // 0 = Pending, 1 = item, 2 = end of stream, 3 = error
            let (kind, val) = match &r {
                Poll::Pending => (0u8, 0u32),
                Poll::Ready(Some(Ok(v))) => (1, *v),
                Poll::Ready(None) => (2, 0),
                Poll::Ready(Some(Err(_))) => (3, 0),
            };
            std::mem::forget(r);
            assert!(kind != 3, "receive error on an in-memory channel");
            if len > 0 {
                assert!(kind == 1, "a message sent before was not delivered (stream pending or ended with messages outstanding)");
                assert!(val == ghost[head], "message altered or delivered out of order");
                head = (head + 1) % QMAX;
                len -= 1;
                delivered += 1;
            } else if a.is_some() {
                assert!(kind == 0, "idle live peer: the stream must be pending (no phantom item, no early end)");
            } else {
                assert!(kind == 2, "peer gone and everything delivered: the stream must end");
                ended = true;
            }
        } else if a.is_some() {
            let mut tx = a.take().unwrap();
            if any_bool() {
                let r = Pin::new(&mut tx).poll_close(&mut cx);
                std::mem::forget(r);
            }
            drop(tx);
        }
        i += 1;
    }
    witness!(delivered >= 2, "two messages delivered in order");
    witness!(ended, "end of stream observed after the peer went away");
    witness!(a.is_none() && len > 0, "peer gone with messages still outstanding");
    std::mem::forget(a);
    std::mem::forget(b);
}

/// The surviving end after its peer is gone: what the peer had sent before is still delivered,
/// then the stream ends (asking the survivor's sink for readiness in between does not panic).
fn survivor() {
    let (mut a, mut b) = unbounded::<u32, u32>();
    let mut cx = Context::from_waker(Waker::noop());
    let v = any_u32();
    let r = Pin::new(&mut b).start_send(v);
    let ok = r.is_ok();
    std::mem::forget(r);
    if !ok { std::mem::forget(a); std::mem::forget(b); return; } // not written: nothing to deliver (the witness below then fails: inconclusive, not a verdict)
    drop(b);
    // what the survivor's SINK reports is not part of C15 (only that asking does not panic)
    let r = Pin::new(&mut a).poll_ready(&mut cx);
    std::mem::forget(r);
    let r = Pin::new(&mut a).poll_next(&mut cx);
    let got = match &r { Poll::Ready(Some(Ok(x))) => Some(*x), _ => None };
    std::mem::forget(r);
    assert!(got == Some(v), "message sent before the peer went away was lost");
    let r = Pin::new(&mut a).poll_next(&mut cx);
    let end = matches!(r, Poll::Ready(None));
    std::mem::forget(r);
    assert!(end, "stream did not end after the peer went away");
    witness!(true, "survivor scenario completed");
    std::mem::forget(a);
}

macro_rules! memchan_harnesses {
    ($( fn $name:ident() [unwind $u:literal] $body:block )*) => {
        $(
            #[cfg_attr(kani, kani::proof)]
            #[cfg_attr(kani, kani::unwind($u))]
            #[cfg_attr(kani, kani::stub(std::rt::thread_cleanup, crate::nd::noop))]
            #[cfg_attr(kani, kani::stub(std::time::Instant::now, crate::nd::stub_now))]
            #[cfg_attr(kani, kani::stub(alloc::fmt::format, crate::nd::stub_format))]
            pub fn $name() $body
        )*
        pub const HARNESSES: &[(&str, fn())] = &[ $( (stringify!($name), $name as fn()) ),* ];
    };
}
memchan_harnesses! {
    fn c15_memchan_steps4() [unwind 6] { schedule(4) }
    fn c15_memchan_steps5() [unwind 7] { schedule(5) }
    fn c15_memchan_steps7() [unwind 9] { schedule(7) }
    fn c15_memchan_steps9() [unwind 11] { schedule(9) }
    fn c15_memchan_survivor() [unwind 4] { survivor() }
}

#[cfg(all(test, verif_replay))]
#[test]
fn verif_replay_entry_memchan() {
    let name = std::env::var("VERIF_REPLAY_HARNESS").expect("VERIF_REPLAY_HARNESS");
    load_values();
    for (n, f) in HARNESSES {
        if *n == name { f(); println!("REPLAY-PASSED {}", name); return; }
    }
    panic!("unknown harness");
}
