// C12 — in-crate overlay for the per-channel request limiter
// (tarpc/src/server/limits/requests_per_channel.rs).  Real code under check:
// `MaxRequests::<C>::{new, poll_next}` and its Sink forwarding, instantiated with a harness
// channel `M` that implements tarpc's `Channel` contract: a request counts as in flight from the
// moment the channel yields it until a response for it is written (that is what BaseChannel does:
// start_request on read, remove_request in start_send).  What the wrapped channel yields, whether
// its sink is ready, and how many requests are already in flight are symbolic.
#![allow(missing_docs, dead_code, unused_imports, static_mut_refs, clippy::all)]
use crate::nd::*;
use crate::server::limits::requests_per_channel::MaxRequests;
use crate::server::{Channel, Config, ResponseGuard, TrackedRequest};
use crate::{Request, Response, ServerError};
use futures::{Sink, Stream};
use std::io;
use std::pin::Pin;
use std::task::{Context, Poll};

/// Stub for `alloc::sync::Arc::<T, A>::drop_slow` (used only by harnesses that say so): the last
/// Arc to an object leaks it instead of running the pointee's destructor.  Needed where tarpc code
/// drops a `tracing::Span`: its niche-encoded `Option<Inner>` makes CBMC explore the drop of
/// `Arc<dyn Subscriber>`, a virtual call it resolves by signature to dozens of unrelated functions.
#[cfg(kani)]
pub fn noop_arc_drop_slow<T: ?Sized, A: std::alloc::Allocator>(_: &mut std::sync::Arc<T, A>) {}

/// A transport error without drop glue (io::Error's recursive `dyn Error` glue is what CBMC drowns in).
#[derive(Debug)]
pub struct TErr;
impl std::fmt::Display for TErr { fn fmt(&self, _: &mut std::fmt::Formatter<'_>) -> std::fmt::Result { Ok(()) } }
impl std::error::Error for TErr {}
const SCRIPT: usize = 3;
/// what the inner channel's stream does at its k-th poll: 0 = yields request with id ID[k],
/// 1 = Pending, 2 = end of stream, 3 = transport error
static mut NEXT_KIND: [u8; SCRIPT] = [0; SCRIPT];
static mut NEXT_ID: [u64; SCRIPT] = [0; SCRIPT];
static mut POLLS: usize = 0;
/// how many in-flight requests the inner channel RELEASES at the start of its k-th poll, before it
/// does what NEXT_KIND says: the real BaseChannel::poll_next processes pending cancellations and
/// expirations and then reads the transport in the same call.  0 in the base harnesses.
static mut NEXT_RELEASE: [u8; SCRIPT] = [0; SCRIPT];
/// sink readiness at its k-th poll_ready: 0 = Ready, 1 = Pending, 2 = error
static mut READY_KIND: [u8; SCRIPT] = [0; SCRIPT];
static mut READY_POLLS: usize = 0;
static mut LAST_READY_OK: bool = false;
static mut IN_FLIGHT: usize = 0;
/// log of what happened, in order: (tag, id, in-flight count at that moment)
const T_YIELDED_BY_INNER: u8 = 1;
const T_THROTTLE_RESPONSE: u8 = 2;
const T_OTHER_RESPONSE: u8 = 3;
static mut LOG: [(u8, u64, usize); 8] = [(0, 0, 0); 8];
static mut LOGN: usize = 0;
static mut SENT_WITHOUT_READY: bool = false;
fn log(tag: u8, id: u64) { unsafe { assert!(LOGN < 8); LOG[LOGN] = (tag, id, IN_FLIGHT); LOGN += 1; } }

struct M { config: Config }
fn tracked(id: u64) -> TrackedRequest<u32> {
    let (_h, abort_registration) = futures::future::AbortHandle::new_pair();
    std::mem::forget(_h);
    let (request_cancellation, rx) = crate::cancellations::cancellations();
    std::mem::forget(rx);
    let mut context: crate::context::Context = unsafe { std::mem::zeroed() };
    context.deadline = mk_instant(5, 0);
    TrackedRequest {
        request: Request { context, id, message: 7u32 },
        abort_registration,
        span: tracing::Span::none(),
        response_guard: ResponseGuard { request_cancellation, request_id: id, cancel: false },
    }
}
impl Stream for M {
    type Item = Result<TrackedRequest<u32>, TErr>;
    fn poll_next(self: Pin<&mut Self>, _: &mut Context<'_>) -> Poll<Option<Self::Item>> {
        let k = unsafe { POLLS };
        assert!(k < SCRIPT);
        unsafe { POLLS += 1; }
        unsafe { let rel = NEXT_RELEASE[k] as usize; IN_FLIGHT -= if rel < IN_FLIGHT { rel } else { IN_FLIGHT }; }
        match unsafe { NEXT_KIND[k] } {
            0 => {
                let id = unsafe { NEXT_ID[k] };
                log(T_YIELDED_BY_INNER, id);
                unsafe { IN_FLIGHT += 1; }          // tracked from the moment it is read
                Poll::Ready(Some(Ok(tracked(id))))
            }
            1 => Poll::Pending,
            2 => Poll::Ready(None),
            _ => Poll::Ready(Some(Err(TErr))),
        }
    }
}
impl Sink<Response<u32>> for M {
    type Error = TErr;
    fn poll_ready(self: Pin<&mut Self>, _: &mut Context<'_>) -> Poll<Result<(), TErr>> {
        let k = unsafe { READY_POLLS };
        assert!(k < SCRIPT);
        unsafe { READY_POLLS += 1; }
        match unsafe { READY_KIND[k] } {
            0 => { unsafe { LAST_READY_OK = true; } Poll::Ready(Ok(())) }
            1 => Poll::Pending,
            _ => Poll::Ready(Err(TErr)),
        }
    }
    fn start_send(self: Pin<&mut Self>, r: Response<u32>) -> Result<(), TErr> {
        if !unsafe { LAST_READY_OK } { unsafe { SENT_WITHOUT_READY = true; } }
        unsafe { LAST_READY_OK = false; }
        let throttle = matches!(&r.message, Err(e) if e.kind == io::ErrorKind::WouldBlock);
        unsafe { if IN_FLIGHT > 0 { IN_FLIGHT -= 1; } }   // a written response untracks its request
        log(if throttle { T_THROTTLE_RESPONSE } else { T_OTHER_RESPONSE }, r.request_id);
        std::mem::forget(r);
        Ok(())
    }
    fn poll_flush(self: Pin<&mut Self>, _: &mut Context<'_>) -> Poll<Result<(), TErr>> { Poll::Ready(Ok(())) }
    fn poll_close(self: Pin<&mut Self>, _: &mut Context<'_>) -> Poll<Result<(), TErr>> { Poll::Ready(Ok(())) }
}
impl Channel for M {
    type Req = u32;
    type Resp = u32;
    type Transport = ();
    fn config(&self) -> &Config { &self.config }
    fn in_flight_requests(&self) -> usize { unsafe { IN_FLIGHT } }
    fn transport(&self) -> &() { &() }
}

fn script() {
    let mut i = 0;
    while i < SCRIPT {
        unsafe {
            NEXT_KIND[i] = any_u8(); NEXT_ID[i] = any_u64(); READY_KIND[i] = any_u8();
            assume(NEXT_KIND[i] <= 3 && READY_KIND[i] <= 2);
        }
        i += 1;
    }
    // the last scripted stream event is not another request: every poll of the limiter ends
    // within the script (it stops at Pending / end of stream / error, or hands a request over)
    assume(unsafe { NEXT_KIND[SCRIPT - 1] } != 0);
}

/// Additionally lets the inner channel release up to 2 requests (Cancel / expiry processed) at the
/// start of each of its polls.
fn script_with_releases() {
    let mut i = 0;
    while i < SCRIPT {
        unsafe { NEXT_RELEASE[i] = any_u8(); assume(NEXT_RELEASE[i] <= 2); }
        i += 1;
    }
}

/// One poll of the limited channel from an arbitrary state; everything the property says about
/// what that poll may do.
fn one_poll(limit: usize, start_in_flight: usize) { one_poll_rel(limit, start_in_flight, false) }
fn one_poll_rel(limit: usize, start_in_flight: usize, releases: bool) {
    script();
    if releases { script_with_releases(); }
    unsafe { IN_FLIGHT = start_in_flight; }
    let mut ch = MaxRequests::new(M { config: Config { pending_response_buffer: 1 } }, limit);
    let r = {
        let mut cx = Context::from_waker(std::task::Waker::noop());
        Pin::new(&mut ch).poll_next(&mut cx)
    };
    // what reached the application
    let handed: Option<u64> = match &r { Poll::Ready(Some(Ok(t))) => Some(t.request.id), _ => None };
    std::mem::forget(r);
    std::mem::forget(ch);
    let n = unsafe { LOGN };
    let mut throttled = 0usize;
    let mut i = 0;
    while i < n {
        let (tag, id, inflight) = unsafe { LOG[i] };
        if tag == T_THROTTLE_RESPONSE {
            throttled += 1;
            // the error response answers the request the inner channel yielded just before it,
            // exactly once, and that request is never handed to the application
            assert!(i >= 1);
            let (ptag, pid, pinflight) = unsafe { LOG[i - 1] };
            assert!(ptag == T_YIELDED_BY_INNER && pid == id);
            // refused only because `limit` requests really were in flight when it was read
            assert!(pinflight >= limit, "refused although fewer than the limit were in flight when it was read");
            assert!(i + 1 == n || unsafe { LOG[i + 1].0 } == T_YIELDED_BY_INNER);
            let _ = inflight;
        }
        assert!(tag != T_OTHER_RESPONSE);    // the limiter itself only ever writes throttle errors
        i += 1;
    }
    assert!(!unsafe { SENT_WITHOUT_READY });   // a throttle reply is only written to a ready sink
    match handed {
        Some(id) => {
            // the last thing the inner channel yielded is what the application got, and at that
            // moment fewer than `limit` requests were in flight
            assert!(n >= 1);
            let (tag, lid, inflight) = unsafe { LOG[n - 1] };
            assert!(tag == T_YIELDED_BY_INNER && lid == id);
            assert!(inflight < limit);
            witness!(throttled == 0, "request handed over without throttling");
            witness!(throttled >= 1, "a request handed over after others were throttled in the same poll");
        }
        None => {
            // every request the inner channel yielded during this poll was answered with a throttle error
            let mut yielded = 0usize; let mut j = 0;
            while j < n { if unsafe { LOG[j].0 } == T_YIELDED_BY_INNER { yielded += 1; } j += 1; }
            assert!(yielded == throttled);
            witness!(throttled >= 1, "at least one request throttled");
            witness!(throttled >= 2, "two requests throttled in one poll");
            witness!(throttled == 0, "nothing yielded by the inner channel (pending / closed / error)");
        }
    }
}

/// Like nd::harnesses!, plus empty bodies for tracing's span enter/exit/close (logging environment).
macro_rules! c12_harnesses {
    ($( fn $name:ident() $body:block )*) => {
        $(
            #[cfg_attr(kani, kani::proof)]
            #[cfg_attr(kani, kani::unwind(5))]
            #[cfg_attr(kani, kani::stub(std::rt::thread_cleanup, crate::nd::noop))]
            #[cfg_attr(kani, kani::stub(std::time::Instant::now, crate::nd::stub_now))]
            #[cfg_attr(kani, kani::stub(alloc::fmt::format, crate::nd::stub_format))]
            #[cfg_attr(kani, kani::stub(tracing::span::Span::do_enter, crate::nd::noop_span))]
            #[cfg_attr(kani, kani::stub(tracing::span::Span::do_exit, crate::nd::noop_span))]
            #[cfg_attr(kani, kani::stub(alloc::sync::Arc::drop_slow, super::verif_overlay_c12::noop_arc_drop_slow))]
            pub fn $name() $body
        )*
        pub const HARNESSES: &[(&str, fn())] = &[ $( (stringify!($name), $name as fn()) ),* ];
    };
}
c12_harnesses! {
    fn c12_limit0() { one_poll(0, 0) }
    fn c12_limit1_idle() { one_poll(1, 0) }
    fn c12_limit1_busy() { one_poll(1, 1) }
    fn c12_limit2_one_in_flight() { one_poll(2, 1) }
    fn c12_limit2_full() { one_poll(2, 2) }
    fn c12_limit2_over() { one_poll(2, 3) }
    fn c12_limit1_busy_release_in_poll() { one_poll_rel(1, 1, true) }
    fn c12_limit2_full_release_in_poll() { one_poll_rel(2, 2, true) }
}

#[cfg(all(test, verif_replay))]
#[test]
fn verif_replay_entry_c12() {
    let name = std::env::var("VERIF_REPLAY_HARNESS").expect("VERIF_REPLAY_HARNESS");
    load_values();
    for (n, f) in HARNESSES {
        if *n == name { f(); println!("REPLAY-PASSED {}", name); return; }
    }
    panic!("unknown harness");
}
