// Server in-flight table — in-crate overlay, child module of server/in_flight_requests.rs (it
// reads the table's private fields to compare entries with timers).  Real code under check:
// server::in_flight_requests::InFlightRequests::{start_request, cancel_request, remove_request,
// poll_expired, len}.  FnvHashMap and tokio_util's DelayQueue are replaced by the models of
// overlay/verif_env.rs (the real DelayQueue needs a tokio runtime).  Serves C06 (expiry at the
// deadline, never before, others unaffected), C08's duplicate-id clause and C11's server half
// (entries and timers are reclaimed together on every removal path).
#![allow(missing_docs, dead_code, unused_imports, static_mut_refs, clippy::all)]
use super::InFlightRequests;
use crate::nd::*;
use futures::future::{pending, Abortable, Pending};
use std::task::{Context, Poll, Waker};
use std::time::{Duration, Instant};
use tracing::Span;

/// `alloc::sync::Arc::drop_slow` -> leak (see DESIGN §3 C12): Spans are dropped by the table.
#[cfg(kani)]
pub fn noop_arc_drop_slow<T: ?Sized, A: std::alloc::Allocator>(_: &mut std::sync::Arc<T, A>) {}
/// `AtomicWaker::wake` -> no-op: wake-ups are not the subject here, and the real one calls the
/// stored waker through a raw vtable pointer.
#[cfg(kani)]
pub fn noop_atomic_waker_wake(_: &futures::task::AtomicWaker) {}

const SLOTS: usize = 2;
struct Model { present: [bool; SLOTS], id: [u64; SLOTS], deadline: [(i64, u32); SLOTS], fut: [Option<Abortable<Pending<()>>>; SLOTS] }
impl Model {
    fn find(&self, id: u64) -> usize { let mut i = 0; while i < SLOTS { if self.present[i] && self.id[i] == id { return i; } i += 1; } SLOTS }
    fn free(&self) -> usize { let mut i = 0; while i < SLOTS { if !self.present[i] { return i; } i += 1; } SLOTS }
    fn count(&self) -> usize { let mut n = 0; let mut i = 0; while i < SLOTS { if self.present[i] { n += 1; } i += 1; } n }
    fn aborted(&self, i: usize) -> bool { match &self.fut[i] { Some(f) => f.is_aborted(), None => false } }
}
fn le(a: (i64, u32), b: (i64, u32)) -> bool { a.0 < b.0 || (a.0 == b.0 && a.1 <= b.1) }

fn invariant(t: &InFlightRequests, m: &Model) {
    assert!(t.len() == m.count());
    // every tracked request has exactly one timer and there are no orphan timers
    assert!(t.deadlines.len() == t.request_data.len());
    // no handler that is still tracked has been aborted
    let mut i = 0;
    while i < SLOTS { if m.present[i] { assert!(!m.aborted(i)); } i += 1; }
}

/// `steps` solver-chosen operations on a table holding at most two requests.
fn run(steps: usize) {
    let mut t = InFlightRequests::default();
    let mut m = Model { present: [false; SLOTS], id: [0; SLOTS], deadline: [(0, 0); SLOTS], fut: [None, None] };
    let mut now = (any_u16() as i64 + 10, 0u32);
    set_now(now.0, now.1);
    let ids = [any_u64(), any_u64()];
    let mut saw_dup = false; let mut saw_expiry = false; let mut saw_cancel = false;
    let mut step = 0;
    while step < steps {
        let op = any_u8();
        assume(op <= 3);
        let id = ids[(any_u8() & 1) as usize];
        if op == 0 {
            // a request arrives with some deadline (past, now or future, within the supported span)
            let dl = (any_u16() as i64, any_u32() % 1_000_000_000);
            let at = m.find(id);
            let free = m.free();
            assume(at < SLOTS || free < SLOTS);
            let r = t.start_request(id, mk_instant(dl.0, dl.1), Span::none());
            match r {
                Ok(reg) => {
                    assert!(at == SLOTS);                       // only a fresh id is accepted
                    m.present[free] = true; m.id[free] = id; m.deadline[free] = dl;
                    m.fut[free] = Some(Abortable::new(pending(), reg));
                    // the timer is armed for exactly the deadline (or immediately, if it has passed)
                    let armed = instant_parts(t.deadlines.due_of_value(&id));
                    if le(now, dl) { assert!(armed == dl); } else { assert!(armed == now); }
                }
                Err(_) => {
                    assert!(at < SLOTS);                        // refused only because the id is in flight
                    saw_dup = true;
                }
            }
        } else if op == 1 {
            let at = m.find(id);
            let r = t.cancel_request(id);
            assert!(r == (at < SLOTS));
            if at < SLOTS {
                assert!(m.aborted(at));                          // the handler is aborted ...
                m.present[at] = false;                           // ... and forgotten
                std::mem::forget(m.fut[at].take());
                saw_cancel = true;
            }
        } else if op == 2 {
            let at = m.find(id);
            let r = t.remove_request(id);
            let some = r.is_some();
            std::mem::forget(r);
            assert!(some == (at < SLOTS));
            if at < SLOTS {
                assert!(!m.aborted(at));                         // a response does not abort
                m.present[at] = false;
                std::mem::forget(m.fut[at].take());
            }
        } else {
            // time passes, then the channel polls for expirations
            let dt = any_u16() as i64;
            now = (now.0 + dt, now.1);
            set_now(now.0, now.1);
            let mut cx = Context::from_waker(Waker::noop());
            let r = t.poll_expired(&mut cx);
            let mut due = SLOTS; let mut i = 0;
            while i < SLOTS { if m.present[i] && le(m.deadline[i], now) && (due == SLOTS || le(m.deadline[i], m.deadline[due])) { due = i; } i += 1; }
            match r {
                Poll::Ready(Some(got)) => {
                    let at = m.find(got);
                    assert!(at < SLOTS);                          // a tracked request ...
                    assert!(le(m.deadline[at], now));             // ... whose deadline HAS passed (never early)
                    assert!(m.aborted(at));                       // its handler is aborted
                    m.present[at] = false;
                    std::mem::forget(m.fut[at].take());
                    saw_expiry = true;
                }
                Poll::Ready(None) => { assert!(m.count() == 0); }
                Poll::Pending => { assert!(due == SLOTS && m.count() > 0); }   // nothing was due
            }
        }
        invariant(&t, &m);
        step += 1;
    }
    witness!(saw_dup, "a duplicate id was refused while the original was in flight");
    witness!(saw_expiry, "a request expired");
    witness!(saw_cancel && m.count() == 1, "one request cancelled while another stays in flight");
    std::mem::forget(t);
    std::mem::forget(m);
}
fn t_deadline(q: &crate::verif_env::delay_queue::DelayQueue<u64>, k: &crate::verif_env::delay_queue::Key) -> Instant { q.deadline_of(k) }

macro_rules! table_harnesses {
    ($( fn $name:ident() [unwind $u:literal] $body:block )*) => {
        $(
            #[cfg_attr(kani, kani::proof)]
            #[cfg_attr(kani, kani::unwind($u))]
            #[cfg_attr(kani, kani::stub(std::rt::thread_cleanup, crate::nd::noop))]
            #[cfg_attr(kani, kani::stub(std::time::Instant::now, crate::nd::stub_now))]
            #[cfg_attr(kani, kani::stub(alloc::fmt::format, crate::nd::stub_format))]
            #[cfg_attr(kani, kani::stub(tracing::span::Span::do_enter, crate::nd::noop_span))]
            #[cfg_attr(kani, kani::stub(tracing::span::Span::do_exit, crate::nd::noop_span))]
            #[cfg_attr(kani, kani::stub(alloc::sync::Arc::drop_slow, super::verif_overlay_sift::noop_arc_drop_slow))]
            #[cfg_attr(kani, kani::stub(futures::task::AtomicWaker::wake, super::verif_overlay_sift::noop_atomic_waker_wake))]
            pub fn $name() $body
        )*
        pub const HARNESSES: &[(&str, fn())] = &[ $( (stringify!($name), $name as fn()) ),* ];
    };
}
table_harnesses! {
    fn sift_steps2() [unwind 4] { run(2) }
    fn sift_steps3() [unwind 5] { run(3) }
}

#[cfg(all(test, verif_replay))]
#[test]
fn verif_replay_entry_sift() {
    let name = std::env::var("VERIF_REPLAY_HARNESS").expect("VERIF_REPLAY_HARNESS");
    load_values();
    for (n, f) in HARNESSES {
        if *n == name { f(); println!("REPLAY-PASSED {}", name); return; }
    }
    panic!("unknown harness");
}
