// Solver-friendly models of two pieces of ENVIRONMENT used by server/limits/channels_per_key.rs,
// swapped in (cfg(kani) only, in the scratch copy) for `tokio::sync::mpsc` and `fnv::FnvHashMap`:
// real tokio mpsc makes Kani ICE, real hashbrown does not finish (DESIGN §1).  Contracts modelled:
//   mpsc::unbounded_channel  - FIFO; send never blocks and succeeds while the receiver exists;
//                              poll_recv returns the oldest item or Pending (wake-ups are not
//                              modelled: the harness polls by hand).
//   FnvHashMap               - a map: entry()/Vacant::insert/Occupied::get,get_mut/remove/len.
// Both are array-backed with used-flags (no Option<niche type>), at most CAP entries; exceeding
// CAP is an assertion failure in the model, i.e. it shows up, it is not silently wrong.
#![allow(missing_docs, dead_code, clippy::all)]
use std::cell::UnsafeCell;
use std::mem::MaybeUninit;
use std::sync::Arc;
use std::task::{Context, Poll};

pub const CAP: usize = 2;

pub mod mpsc {
    use super::*;
    pub mod error {
        #[derive(Debug)]
        pub struct SendError<T>(pub T);
    }
    struct Chan<T> { items: [MaybeUninit<T>; CAP], head: usize, len: usize }
    struct Shared<T>(UnsafeCell<Chan<T>>);
    unsafe impl<T> Send for Shared<T> {}
    unsafe impl<T> Sync for Shared<T> {}
    pub struct UnboundedSender<T>(Arc<Shared<T>>);
    pub struct UnboundedReceiver<T>(Arc<Shared<T>>);
    impl<T> Clone for UnboundedSender<T> { fn clone(&self) -> Self { UnboundedSender(self.0.clone()) } }
    impl<T> std::fmt::Debug for UnboundedSender<T> { fn fmt(&self, f: &mut std::fmt::Formatter<'_>) -> std::fmt::Result { f.write_str("UnboundedSender") } }
    impl<T> std::fmt::Debug for UnboundedReceiver<T> { fn fmt(&self, f: &mut std::fmt::Formatter<'_>) -> std::fmt::Result { f.write_str("UnboundedReceiver") } }
    pub fn unbounded_channel<T>() -> (UnboundedSender<T>, UnboundedReceiver<T>) {
        let c = Arc::new(Shared(UnsafeCell::new(Chan { items: unsafe { MaybeUninit::uninit().assume_init() }, head: 0, len: 0 })));
        (UnboundedSender(c.clone()), UnboundedReceiver(c))
    }
    impl<T> UnboundedSender<T> {
        pub fn send(&self, t: T) -> Result<(), error::SendError<T>> {
            let c = unsafe { &mut *(self.0).0.get() };
            assert!(c.len < CAP, "verif_env: model queue bound exceeded");
            let idx = (c.head + c.len) % CAP;
            c.items[idx] = MaybeUninit::new(t);
            c.len += 1;
            Ok(())
        }
    }
    impl<T> UnboundedReceiver<T> {
        pub fn poll_recv(&mut self, _: &mut Context<'_>) -> Poll<Option<T>> {
            let c = unsafe { &mut *(self.0).0.get() };
            if c.len == 0 { return Poll::Pending; }
            let t = unsafe { std::ptr::read(c.items[c.head].as_ptr()) };
            c.head = (c.head + 1) % CAP;
            c.len -= 1;
            Poll::Ready(Some(t))
        }
    }
}

pub struct FnvHashMap<K, V> { used: [bool; CAP], keys: [MaybeUninit<K>; CAP], vals: [MaybeUninit<V>; CAP] }
impl<K, V> Default for FnvHashMap<K, V> {
    fn default() -> Self { FnvHashMap { used: [false; CAP], keys: unsafe { MaybeUninit::uninit().assume_init() }, vals: unsafe { MaybeUninit::uninit().assume_init() } } }
}
impl<K, V> std::fmt::Debug for FnvHashMap<K, V> { fn fmt(&self, f: &mut std::fmt::Formatter<'_>) -> std::fmt::Result { f.write_str("FnvHashMap(model)") } }
pub enum Entry<'a, K, V> { Vacant(VacantEntry<'a, K, V>), Occupied(OccupiedEntry<'a, K, V>) }
pub struct VacantEntry<'a, K, V> { map: &'a mut FnvHashMap<K, V>, key: K }
pub struct OccupiedEntry<'a, K, V> { map: &'a mut FnvHashMap<K, V>, idx: usize }
impl<K: Eq, V> FnvHashMap<K, V> {
    fn find(&self, k: &K) -> Option<usize> {
        let mut i = 0;
        while i < CAP {
            if self.used[i] && unsafe { &*self.keys[i].as_ptr() } == k { return Some(i); }
            i += 1;
        }
        None
    }
    pub fn entry(&mut self, key: K) -> Entry<'_, K, V> {
        match self.find(&key) {
            Some(idx) => Entry::Occupied(OccupiedEntry { map: self, idx }),
            None => Entry::Vacant(VacantEntry { map: self, key }),
        }
    }
    pub fn remove(&mut self, k: &K) -> Option<V> {
        match self.find(k) {
            Some(i) => {
                self.used[i] = false;
                unsafe { std::ptr::drop_in_place(self.keys[i].as_mut_ptr()); }
                Some(unsafe { std::ptr::read(self.vals[i].as_ptr()) })
            }
            None => None,
        }
    }
    pub fn len(&self) -> usize { let mut n = 0; let mut i = 0; while i < CAP { if self.used[i] { n += 1; } i += 1; } n }
    pub fn contains_key(&self, k: &K) -> bool { self.find(k).is_some() }
}
impl<'a, K, V> VacantEntry<'a, K, V> {
    pub fn insert(self, v: V) -> &'a mut V {
        let mut i = 0;
        while i < CAP && self.map.used[i] { i += 1; }
        assert!(i < CAP, "verif_env: model map bound exceeded");
        self.map.used[i] = true;
        self.map.keys[i] = MaybeUninit::new(self.key);
        self.map.vals[i] = MaybeUninit::new(v);
        unsafe { &mut *self.map.vals[i].as_mut_ptr() }
    }
}
impl<'a, K, V> OccupiedEntry<'a, K, V> {
    pub fn get(&self) -> &V { unsafe { &*self.map.vals[self.idx].as_ptr() } }
    pub fn get_mut(&mut self) -> &mut V { unsafe { &mut *self.map.vals[self.idx].as_mut_ptr() } }
    pub fn remove(self) -> V {
        self.map.used[self.idx] = false;
        unsafe { std::ptr::drop_in_place(self.map.keys[self.idx].as_mut_ptr()); }
        unsafe { std::ptr::read(self.map.vals[self.idx].as_ptr()) }
    }
    pub fn insert(&mut self, v: V) -> V { std::mem::replace(self.get_mut(), v) }
    pub fn key(&self) -> &K { unsafe { &*self.map.keys[self.idx].as_ptr() } }
}
impl<K, V> crate::util::Compact for FnvHashMap<K, V> {
    fn compact(&mut self, _: f64) {}
}
