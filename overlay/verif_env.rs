// Solver-friendly models of two pieces of ENVIRONMENT used by server/limits/channels_per_key.rs,
// swapped in (cfg(kani) only, in the scratch copy) for `tokio::sync::mpsc` and `fnv::FnvHashMap`:
// real tokio mpsc makes Kani ICE, real hashbrown does not finish (DESIGN §1).  Contracts modelled:
//   mpsc::unbounded_channel  - FIFO; send never blocks and succeeds while the receiver exists;
//                              poll_recv returns the oldest item or Pending (wake-ups are not
//                              modelled: the harness polls by hand).
//   FnvHashMap               - a map: entry()/Vacant::insert/Occupied::get,get_mut/remove/len.
// Both are array-backed with used-flags (no Option<niche type>), at most CAP entries; exceeding
// CAP is an assertion failure in the model, i.e. it shows up, it is not silently wrong.
#![allow(missing_docs, dead_code, clippy::all)]
use std::cell::UnsafeCell;
use std::mem::MaybeUninit;
use std::sync::Arc;
use std::task::{Context, Poll};

pub const CAP: usize = 2;

pub mod mpsc {
    use super::*;
    pub mod error {
        #[derive(Debug)]
        pub struct SendError<T>(pub T);
    }
    struct Chan<T> { items: [MaybeUninit<T>; CAP], head: usize, len: usize }
    struct Shared<T>(UnsafeCell<Chan<T>>);
    unsafe impl<T> Send for Shared<T> {}
    unsafe impl<T> Sync for Shared<T> {}
    pub struct UnboundedSender<T>(Arc<Shared<T>>);
    pub struct UnboundedReceiver<T>(Arc<Shared<T>>);
    impl<T> Clone for UnboundedSender<T> { fn clone(&self) -> Self { UnboundedSender(self.0.clone()) } }
    impl<T> std::fmt::Debug for UnboundedSender<T> { fn fmt(&self, f: &mut std::fmt::Formatter<'_>) -> std::fmt::Result { f.write_str("UnboundedSender") } }
    impl<T> std::fmt::Debug for UnboundedReceiver<T> { fn fmt(&self, f: &mut std::fmt::Formatter<'_>) -> std::fmt::Result { f.write_str("UnboundedReceiver") } }
    pub fn unbounded_channel<T>() -> (UnboundedSender<T>, UnboundedReceiver<T>) {
        let c = Arc::new(Shared(UnsafeCell::new(Chan { items: unsafe { MaybeUninit::uninit().assume_init() }, head: 0, len: 0 })));
        (UnboundedSender(c.clone()), UnboundedReceiver(c))
    }
    impl<T> UnboundedSender<T> {
        pub fn send(&self, t: T) -> Result<(), error::SendError<T>> {
            let c = unsafe { &mut *(self.0).0.get() };
            assert!(c.len < CAP, "verif_env: model queue bound exceeded");
            let idx = (c.head + c.len) % CAP;
            c.items[idx] = MaybeUninit::new(t);
            c.len += 1;
            Ok(())
        }
    }
    impl<T> UnboundedReceiver<T> {
        pub fn poll_recv(&mut self, _: &mut Context<'_>) -> Poll<Option<T>> {
            let c = unsafe { &mut *(self.0).0.get() };
            if c.len == 0 { return Poll::Pending; }
            let t = unsafe { std::ptr::read(c.items[c.head].as_ptr()) };
            c.head = (c.head + 1) % CAP;
            c.len -= 1;
            Poll::Ready(Some(t))
        }
    }
    /// Bounded channel (the server's response buffer): same array FIFO.  `send` never has to wait
    /// — a full buffer (the handler parked in `send`) is outside what the harnesses using it
    /// claim; exceeding the model bound is an assertion failure, never a silent drop.
    pub struct Sender<T>(UnboundedSender<T>);
    pub struct Receiver<T>(UnboundedReceiver<T>);
    impl<T> Clone for Sender<T> { fn clone(&self) -> Self { Sender(self.0.clone()) } }
    impl<T> std::fmt::Debug for Sender<T> { fn fmt(&self, f: &mut std::fmt::Formatter<'_>) -> std::fmt::Result { f.write_str("Sender") } }
    impl<T> std::fmt::Debug for Receiver<T> { fn fmt(&self, f: &mut std::fmt::Formatter<'_>) -> std::fmt::Result { f.write_str("Receiver") } }
    pub fn channel<T>(_buffer: usize) -> (Sender<T>, Receiver<T>) { let (a, b) = unbounded_channel(); (Sender(a), Receiver(b)) }
    impl<T> Sender<T> {
        pub async fn send(&self, t: T) -> Result<(), error::SendError<T>> { self.0.send(t) }
        pub fn try_send(&self, t: T) -> Result<(), error::SendError<T>> { self.0.send(t) }
    }
    impl<T> Receiver<T> {
        pub fn poll_recv(&mut self, cx: &mut Context<'_>) -> Poll<Option<T>> { self.0.poll_recv(cx) }
        /// The real `close` makes further sends fail; no harness sends after a close.
        pub fn close(&mut self) {}
    }
}

pub struct FnvHashMap<K, V> { used: [bool; CAP], keys: [MaybeUninit<K>; CAP], vals: [MaybeUninit<V>; CAP] }
impl<K, V> Default for FnvHashMap<K, V> {
    fn default() -> Self { FnvHashMap { used: [false; CAP], keys: unsafe { MaybeUninit::uninit().assume_init() }, vals: unsafe { MaybeUninit::uninit().assume_init() } } }
}
impl<K, V> std::fmt::Debug for FnvHashMap<K, V> { fn fmt(&self, f: &mut std::fmt::Formatter<'_>) -> std::fmt::Result { f.write_str("FnvHashMap(model)") } }
pub enum Entry<'a, K, V> { Vacant(VacantEntry<'a, K, V>), Occupied(OccupiedEntry<'a, K, V>) }
pub struct VacantEntry<'a, K, V> { map: &'a mut FnvHashMap<K, V>, key: K }
pub struct OccupiedEntry<'a, K, V> { map: &'a mut FnvHashMap<K, V>, idx: usize }
impl<K: Eq, V> FnvHashMap<K, V> {
    fn find(&self, k: &K) -> Option<usize> {
        let mut i = 0;
        while i < CAP {
            if self.used[i] && unsafe { &*self.keys[i].as_ptr() } == k { return Some(i); }
            i += 1;
        }
        None
    }
    pub fn entry(&mut self, key: K) -> Entry<'_, K, V> {
        match self.find(&key) {
            Some(idx) => Entry::Occupied(OccupiedEntry { map: self, idx }),
            None => Entry::Vacant(VacantEntry { map: self, key }),
        }
    }
    pub fn remove(&mut self, k: &K) -> Option<V> {
        match self.find(k) {
            Some(i) => {
                self.used[i] = false;
                unsafe { std::ptr::drop_in_place(self.keys[i].as_mut_ptr()); }
                Some(unsafe { std::ptr::read(self.vals[i].as_ptr()) })
            }
            None => None,
        }
    }
    pub fn len(&self) -> usize { let mut n = 0; let mut i = 0; while i < CAP { if self.used[i] { n += 1; } i += 1; } n }
    pub fn contains_key(&self, k: &K) -> bool { self.find(k).is_some() }
}
impl<'a, K, V> VacantEntry<'a, K, V> {
    pub fn insert(self, v: V) -> &'a mut V {
        let mut i = 0;
        while i < CAP && self.map.used[i] { i += 1; }
        assert!(i < CAP, "verif_env: model map bound exceeded");
        self.map.used[i] = true;
        self.map.keys[i] = MaybeUninit::new(self.key);
        self.map.vals[i] = MaybeUninit::new(v);
        unsafe { &mut *self.map.vals[i].as_mut_ptr() }
    }
}
impl<'a, K, V> OccupiedEntry<'a, K, V> {
    pub fn get(&self) -> &V { unsafe { &*self.map.vals[self.idx].as_ptr() } }
    pub fn get_mut(&mut self) -> &mut V { unsafe { &mut *self.map.vals[self.idx].as_mut_ptr() } }
    pub fn remove(self) -> V {
        self.map.used[self.idx] = false;
        unsafe { std::ptr::drop_in_place(self.map.keys[self.idx].as_mut_ptr()); }
        unsafe { std::ptr::read(self.map.vals[self.idx].as_ptr()) }
    }
    pub fn insert(&mut self, v: V) -> V { std::mem::replace(self.get_mut(), v) }
    pub fn key(&self) -> &K { unsafe { &*self.map.keys[self.idx].as_ptr() } }
}
impl<K, V> crate::util::Compact for FnvHashMap<K, V> {
    fn compact(&mut self, _: f64) {}
}

// ---------------------------------------------------------------------------------------------
// tokio_util::time::DelayQueue — the real one calls tokio::time::sleep_until and cannot run without
// a tokio runtime.  Contract modelled (tokio-util 0.7 docs + source): insert(value, timeout)
// returns a Key and PANICS if now + timeout is not representable or the timeout exceeds the wheel's
// range (2^36 - 1 ms); remove(&key) returns the entry and PANICS on a key that is not in the queue
// ("invalid key"); poll_expired yields entries whose deadline has passed, earliest first,
// Ready(None) when the queue is empty, Pending otherwise; clear(); is_empty(); len().
// Time is std::time::Instant::now() (the harness clock).  Millisecond rounding is not modelled: an
// entry is due exactly from its deadline on (the real queue fires at or after it).
pub mod delay_queue {
    use super::*;
    use std::time::{Duration, Instant};
    pub const WHEEL_MAX_MS: u128 = (1u128 << 36) - 1;
    #[derive(Debug, Clone, Copy, PartialEq, Eq)]
    pub struct Key { slot: usize, gen: u32 }
    #[derive(Debug)]
    pub struct Expired<T> { value: T, deadline: Instant, key: Key }
    impl<T> Expired<T> {
        pub fn get_ref(&self) -> &T { &self.value }
        pub fn into_inner(self) -> T { self.value }
        pub fn key(&self) -> Key { self.key }
    }
    pub struct DelayQueue<T> { used: [bool; CAP], gen: [u32; CAP], vals: [MaybeUninit<T>; CAP], due: [MaybeUninit<Instant>; CAP] }
    impl<T> Default for DelayQueue<T> {
        fn default() -> Self { DelayQueue { used: [false; CAP], gen: [0; CAP], vals: unsafe { MaybeUninit::uninit().assume_init() }, due: unsafe { MaybeUninit::uninit().assume_init() } } }
    }
    impl<T> std::fmt::Debug for DelayQueue<T> { fn fmt(&self, f: &mut std::fmt::Formatter<'_>) -> std::fmt::Result { f.write_str("DelayQueue(model)") } }
    impl<T> DelayQueue<T> {
        pub fn new() -> Self { Self::default() }
        pub fn insert(&mut self, value: T, timeout: Duration) -> Key {
            let due = match Instant::now().checked_add(timeout) { Some(d) => d, None => panic!("overflow when adding duration to instant") };
            assert!(timeout.as_millis() <= WHEEL_MAX_MS, "invalid deadline; err=Invalid");
            let mut i = 0;
            while i < CAP && self.used[i] { i += 1; }
            assert!(i < CAP, "verif_env: model timer queue bound exceeded");
            self.used[i] = true;
            self.gen[i] += 1;
            self.vals[i] = MaybeUninit::new(value);
            self.due[i] = MaybeUninit::new(due);
            Key { slot: i, gen: self.gen[i] }
        }
        pub fn remove(&mut self, key: &Key) -> Expired<T> {
            assert!(key.slot < CAP && self.used[key.slot] && self.gen[key.slot] == key.gen, "invalid key");
            self.used[key.slot] = false;
            Expired { value: unsafe { std::ptr::read(self.vals[key.slot].as_ptr()) }, deadline: unsafe { std::ptr::read(self.due[key.slot].as_ptr()) }, key: *key }
        }
        pub fn poll_expired(&mut self, _: &mut Context<'_>) -> Poll<Option<Expired<T>>> {
            if self.is_empty() { return Poll::Ready(None); }
            let now = Instant::now();
            let mut best = CAP;
            let mut i = 0;
            while i < CAP {
                if self.used[i] {
                    let d = unsafe { std::ptr::read(self.due[i].as_ptr()) };
                    if d <= now && (best == CAP || d < unsafe { std::ptr::read(self.due[best].as_ptr()) }) { best = i; }
                }
                i += 1;
            }
            if best == CAP { return Poll::Pending; }
            let key = Key { slot: best, gen: self.gen[best] };
            Poll::Ready(Some(self.remove(&key)))
        }
        pub fn clear(&mut self) {
            let mut i = 0;
            while i < CAP { if self.used[i] { self.used[i] = false; unsafe { std::ptr::drop_in_place(self.vals[i].as_mut_ptr()); } } i += 1; }
        }
        pub fn is_empty(&self) -> bool { self.len() == 0 }
        pub fn len(&self) -> usize { let mut n = 0; let mut i = 0; while i < CAP { if self.used[i] { n += 1; } i += 1; } n }
        /// (model only) the deadline an entry is armed with
/// Harness-side observation that does not depend on how the table keys its map: the due time
        /// of the entry carrying `v` (asserts that there is one).
        pub fn due_of_value(&self, v: &T) -> Instant where T: PartialEq {
            let mut i = 0;
            let mut at = CAP;
            while i < CAP { if self.used[i] && unsafe { &*self.vals[i].as_ptr() } == v { at = i; } i += 1; }
            assert!(at < CAP, "no timer armed for this request");
            unsafe { std::ptr::read(self.due[at].as_ptr()) }
        }
        pub fn deadline_of(&self, key: &Key) -> Instant { unsafe { std::ptr::read(self.due[key.slot].as_ptr()) } }
    }
}

// extras of the map model used by the in-flight tables
pub struct Values<'a, K, V> { map: &'a FnvHashMap<K, V>, i: usize }
impl<'a, K, V> Iterator for Values<'a, K, V> {
    type Item = &'a V;
    fn next(&mut self) -> Option<&'a V> {
        while self.i < CAP {
            let i = self.i;
            self.i += 1;
            if self.map.used[i] { return Some(unsafe { &*self.map.vals[i].as_ptr() }); }
        }
        None
    }
}
pub struct Drain<'a, K, V> { map: &'a mut FnvHashMap<K, V>, i: usize }
impl<'a, K, V> Iterator for Drain<'a, K, V> {
    type Item = (K, V);
    fn next(&mut self) -> Option<(K, V)> {
        while self.i < CAP {
            let i = self.i;
            self.i += 1;
            if self.map.used[i] {
                self.map.used[i] = false;
                return Some(unsafe { (std::ptr::read(self.map.keys[i].as_ptr()), std::ptr::read(self.map.vals[i].as_ptr())) });
            }
        }
        None
    }
}
impl<K, V> FnvHashMap<K, V> {
    pub fn values(&self) -> Values<'_, K, V> { Values { map: self, i: 0 } }
    pub fn drain(&mut self) -> Drain<'_, K, V> { Drain { map: self, i: 0 } }
    pub fn is_empty(&self) -> bool { let mut i = 0; while i < CAP { if self.used[i] { return false; } i += 1; } true }
}
pub mod hash_map {
    pub use super::Entry;
}

/// tokio's UNBOUNDED mpsc including its CLOSING contract, for transport/channel.rs (C15, in-memory
/// transport).  Separate from `mpsc` above so that the harnesses using that one are not touched.
/// Contract modelled (tokio 1.x docs): FIFO; `send` fails once the receiver is gone; `is_closed`
/// is true exactly when the receiver is gone; `poll_recv` returns the oldest buffered item, and
/// only when the buffer is EMPTY: `Ready(None)` if every sender is gone, else `Pending`.
/// Wake-ups are not modelled (the harness polls by hand).  At most QCAP buffered items (assertion).
pub mod mpsc_closing {
    use super::*;
    pub mod error {
        #[derive(Debug)]
        pub struct SendError<T>(pub T);
    }
    pub const QCAP: usize = 3;
    struct Chan<T> { items: [MaybeUninit<T>; QCAP], head: usize, len: usize, senders: usize, rx_alive: bool }
    pub struct UnboundedSender<T>(*mut Chan<T>);
    pub struct UnboundedReceiver<T>(*mut Chan<T>);
    unsafe impl<T> Send for UnboundedSender<T> {}
    unsafe impl<T> Sync for UnboundedSender<T> {}
    unsafe impl<T> Send for UnboundedReceiver<T> {}
    unsafe impl<T> Sync for UnboundedReceiver<T> {}
    impl<T> std::fmt::Debug for UnboundedSender<T> { fn fmt(&self, f: &mut std::fmt::Formatter<'_>) -> std::fmt::Result { f.write_str("UnboundedSender") } }
    impl<T> std::fmt::Debug for UnboundedReceiver<T> { fn fmt(&self, f: &mut std::fmt::Formatter<'_>) -> std::fmt::Result { f.write_str("UnboundedReceiver") } }
    pub fn unbounded_channel<T>() -> (UnboundedSender<T>, UnboundedReceiver<T>) {
        // the shared state is leaked: freeing it is not the subject
        let c = Box::into_raw(Box::new(Chan { items: unsafe { MaybeUninit::uninit().assume_init() }, head: 0, len: 0, senders: 1, rx_alive: true }));
        (UnboundedSender(c), UnboundedReceiver(c))
    }
    impl<T> Clone for UnboundedSender<T> { fn clone(&self) -> Self { unsafe { (*self.0).senders += 1; } UnboundedSender(self.0) } }
    impl<T> Drop for UnboundedSender<T> { fn drop(&mut self) { unsafe { (*self.0).senders -= 1; } } }
    impl<T> Drop for UnboundedReceiver<T> { fn drop(&mut self) { unsafe { (*self.0).rx_alive = false; } } }
    impl<T> UnboundedSender<T> {
        pub fn send(&self, t: T) -> Result<(), error::SendError<T>> {
            let c = unsafe { &mut *self.0 };
            if !c.rx_alive { return Err(error::SendError(t)); }
            assert!(c.len < QCAP, "verif_env: model queue bound exceeded");
            let idx = (c.head + c.len) % QCAP;
            c.items[idx] = MaybeUninit::new(t);
            c.len += 1;
            Ok(())
        }
        pub fn is_closed(&self) -> bool { unsafe { !(*self.0).rx_alive } }
    }
    impl<T> UnboundedReceiver<T> {
        pub fn poll_recv(&mut self, _: &mut Context<'_>) -> Poll<Option<T>> {
            let c = unsafe { &mut *self.0 };
            if c.len == 0 { return if c.senders == 0 { Poll::Ready(None) } else { Poll::Pending }; }
            let t = unsafe { std::ptr::read(c.items[c.head].as_ptr()) };
            c.head = (c.head + 1) % QCAP;
            c.len -= 1;
            Poll::Ready(Some(t))
        }
    }
}
