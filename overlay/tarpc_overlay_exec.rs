// C11 (handler side) — in-crate overlay, child module of `server`.  Real code under check:
// server::InFlightRequest::<u32, u32>::execute (with futures' Abortable and tracing's Instrumented
// around the handler) and server::ResponseGuard's Drop, i.e. the part of "every way a request ends
// releases it" that lives with the APPLICATION's handle: a handle dropped before execute, an
// execute future dropped half-way, a handler that completes, a handler aborted by the channel.
// Environment under Kani: tokio mpsc (response buffer, cancellation queue) = waker-less array
// models of verif_env.rs; the native replay uses the real tokio channels.
#![allow(missing_docs, dead_code, unused_imports, static_mut_refs, clippy::all)]
use crate::nd::*;
use crate::server::{InFlightRequest, ResponseGuard, Serve};
use crate::{context, Request, Response, ServerError};
use futures::future::{AbortHandle, Future};
use std::pin::Pin;
use std::task::{Context, Poll, Waker};

#[cfg(kani)]
pub fn noop_arc_drop_slow<T: ?Sized, A: std::alloc::Allocator>(_: &mut std::sync::Arc<T, A>) {}
#[cfg(kani)]
pub fn noop_wake(w: Waker) { std::mem::forget(w) }
#[cfg(kani)]
pub fn noop_wake_by_ref(_: &Waker) {}
#[cfg(kani)]
pub fn noop_waker_drop(_: &mut Waker) {}
#[cfg(kani)]
pub fn noop_atomic_waker_wake(_: &futures::task::AtomicWaker) {}
/// Abortable registers the polling task's waker (a clone through the waker's raw vtable) before
/// it polls the handler; wake-ups are not the subject here.
#[cfg(kani)]
pub fn noop_atomic_waker_register(_: &futures::task::AtomicWaker, _: &Waker) {}

/// tracing's `log` fallback (a formatted line per span event when no subscriber is installed) and
/// field recording: logging environment, not the subject.
#[cfg(kani)]
pub fn noop_span_log(_: &tracing::Span, _: &str, _: log::Level, _: std::fmt::Arguments<'_>) {}
#[cfg(kani)]
pub fn noop_record_all<'a>(s: &'a tracing::Span, _: &tracing::field::ValueSet<'_>) -> &'a tracing::Span { s }

/// The application's handler: stays Pending for `left` polls, then answers `body`.
struct H { pend: u8, body: u32 }
struct HFut { left: u8, body: u32 }
static mut HANDLER_POLLS: usize = 0;
impl Future for HFut {
    type Output = Result<u32, ServerError>;
    fn poll(mut self: Pin<&mut Self>, _: &mut Context<'_>) -> Poll<Self::Output> {
        unsafe { HANDLER_POLLS += 1; }
        if self.left == 0 { Poll::Ready(Ok(self.body)) } else { self.left -= 1; Poll::Pending }
    }
}
impl Serve for H {
    type Req = u32;
    type Resp = u32;
    async fn serve(self, _: context::Context, _: u32) -> Result<u32, ServerError> { HFut { left: self.pend, body: self.body }.await }
}

/// What the channel would see afterwards: (cancellations queued, responses buffered).
struct Seen { cancels: usize, cancel_id: u64, responses: usize, resp_id: u64, resp_body: u32 }

/// `drop_after`: 0 = the handle is dropped without execute; k >= 1 = execute is polled up to k
/// times and dropped if still pending.  `abort_at`: the channel aborts the handler (Cancel /
/// expiry path) before poll number `abort_at` (1-based; 0 = never).
fn scenario(pend: u8, drop_after: usize, abort_at: usize) {
    let id = any_u64();
    let body = any_u32();
    unsafe { HANDLER_POLLS = 0; }
    let (abort_handle, abort_registration) = AbortHandle::new_pair();
    let (request_cancellation, mut canceled) = crate::cancellations::cancellations();
    let (response_tx, mut responses) = super::mpsc::channel::<Response<u32>>(1);
    let mut ctx: context::Context = unsafe { std::mem::zeroed() };
    ctx.deadline = mk_instant(5, 0);
    let req = InFlightRequest {
        request: Request { context: ctx, id, message: 7u32 },
        abort_registration,
        response_guard: ResponseGuard { request_cancellation, request_id: id, cancel: true },
        span: tracing::Span::none(),
        response_tx,
    };
    let mut finished = false;
    if drop_after == 0 {
        drop(req);
    } else {
        let mut fut = Box::pin(req.execute(H { pend, body }));
        let mut k = 1;
        while k <= drop_after {
            if abort_at == k { abort_handle.abort(); }
            if let Poll::Ready(()) = poll_once(fut.as_mut()) { finished = true; break; }
            k += 1;
        }
        drop(fut);
    }
    // what reached the channel
    let mut s = Seen { cancels: 0, cancel_id: 0, responses: 0, resp_id: 0, resp_body: 0 };
    {
        let mut cx = Context::from_waker(Waker::noop());
        let mut i = 0;
        while i < 2 {
            if let Poll::Ready(Some(c)) = canceled.poll_recv(&mut cx) { s.cancels += 1; s.cancel_id = c; }
            if let Poll::Ready(Some(r)) = responses.poll_recv(&mut cx) {
                s.responses += 1; s.resp_id = r.request_id;
                s.resp_body = match &r.message { Ok(b) => *b, Err(_) => u32::MAX };
                std::mem::forget(r);
            }
            i += 1;
        }
    }
    std::mem::forget(canceled);
    std::mem::forget(responses);
    std::mem::forget(abort_handle);
    let aborted = abort_at != 0 && abort_at <= drop_after;
    let completes = !aborted && drop_after as u64 > pend as u64;
    if completes {
        // the handler finished: exactly one response, with this request's id and the handler's
        // body, and NO cancellation (the channel releases the request when it writes the response)
        assert!(finished);
        assert!(s.responses == 1 && s.resp_id == id && s.resp_body == body);
        assert!(s.cancels == 0);
        witness!(pend >= 1, "handler completed after being pending");
        witness!(true, "reached: the handler completed");
    } else if aborted && (abort_at as u64) <= pend as u64 + 1 {
        // the channel aborted the handler before it could finish (it has released the request
        // itself): no response, no cancellation, the handler makes no further progress
        assert!(finished);
        assert!(s.responses == 0);
        assert!(s.cancels == 0);
        assert!(unsafe { HANDLER_POLLS } + 1 == abort_at);
        witness!(abort_at >= 2, "aborted after the handler had started");
        witness!(true, "reached: aborted by the channel");
    } else if !aborted {
        // abandoned by the application (never executed, or dropped while the handler was pending):
        // exactly one cancellation with this request's id tells the channel to release it; no response
        assert!(!finished);
        assert!(s.responses == 0);
        assert!(s.cancels == 1 && s.cancel_id == id, "an abandoned request was not released");
        witness!(drop_after >= 1, "dropped after the handler had started");
        witness!(drop_after == 0, "dropped without execute");
        witness!(true, "reached: abandoned by the application");
    }
}

macro_rules! exec_harnesses {
    ($( fn $name:ident() $body:block )*) => {
        $(
            #[cfg_attr(kani, kani::proof)]
            #[cfg_attr(kani, kani::unwind(5))]
            #[cfg_attr(kani, kani::stub(std::rt::thread_cleanup, crate::nd::noop))]
            #[cfg_attr(kani, kani::stub(std::time::Instant::now, crate::nd::stub_now))]
            #[cfg_attr(kani, kani::stub(alloc::fmt::format, crate::nd::stub_format))]
            #[cfg_attr(kani, kani::stub(tracing::span::Span::do_enter, crate::nd::noop_span))]
            #[cfg_attr(kani, kani::stub(tracing::span::Span::do_exit, crate::nd::noop_span))]
            #[cfg_attr(kani, kani::stub(alloc::sync::Arc::drop_slow, super::verif_overlay_exec::noop_arc_drop_slow))]
            #[cfg_attr(kani, kani::stub(core::task::wake::Waker::wake, super::verif_overlay_exec::noop_wake))]
            #[cfg_attr(kani, kani::stub(core::task::wake::Waker::wake_by_ref, super::verif_overlay_exec::noop_wake_by_ref))]
            #[cfg_attr(kani, kani::stub(<core::task::wake::Waker as core::ops::Drop>::drop, super::verif_overlay_exec::noop_waker_drop))]
            #[cfg_attr(kani, kani::stub(futures::task::AtomicWaker::wake, super::verif_overlay_exec::noop_atomic_waker_wake))]
            #[cfg_attr(kani, kani::stub(futures::task::AtomicWaker::register, super::verif_overlay_exec::noop_atomic_waker_register))]
            #[cfg_attr(kani, kani::stub(tracing::span::Span::log, super::verif_overlay_exec::noop_span_log))]
            #[cfg_attr(kani, kani::stub(tracing::span::Span::record_all, super::verif_overlay_exec::noop_record_all))]
            pub fn $name() $body
        )*
        pub const HARNESSES: &[(&str, fn())] = &[ $( (stringify!($name), $name as fn()) ),* ];
    };
}
exec_harnesses! {
    fn exec_dropped_without_execute() { scenario(0, 0, 0) }
    fn exec_dropped_after_first_poll() { scenario(2, 1, 0) }
    fn exec_dropped_after_second_poll() { scenario(2, 2, 0) }
    fn exec_completes_at_once() { scenario(0, 1, 0) }
    fn exec_completes_after_pending() { scenario(1, 3, 0) }
    fn exec_aborted_before_start() { scenario(1, 2, 1) }
    fn exec_aborted_while_pending() { scenario(2, 3, 2) }
}

#[cfg(all(test, verif_replay))]
#[test]
fn verif_replay_entry_exec() {
    let name = std::env::var("VERIF_REPLAY_HARNESS").expect("VERIF_REPLAY_HARNESS");
    load_values();
    for (n, f) in HARNESSES {
        if *n == name { f(); println!("REPLAY-PASSED {}", name); return; }
    }
    panic!("unknown harness");
}
