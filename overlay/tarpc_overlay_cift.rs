// Client in-flight table — in-crate overlay, child module of client/in_flight_requests.rs.
// Real code under check: client::in_flight_requests::InFlightRequests::<u32>::{insert_request,
// complete_request, cancel_request, poll_expired, complete_all_requests, len, is_empty}.
// FnvHashMap and tokio_util's DelayQueue are the models of overlay/verif_env.rs; the completion
// handles are real tokio oneshot channels.  Serves C01 (a response completes exactly the call
// with that id; unknown ids disturb nothing), C05 (expiry completes the call with the deadline
// error, never before the deadline), C11's client half (entries and timers reclaimed together on
// every removal path) and the "expiry must not crash the dispatch" part of C16.
#![allow(missing_docs, dead_code, unused_imports, static_mut_refs, clippy::all)]
use super::InFlightRequests;
use crate::nd::*;
use std::task::{Context, Poll, Waker};
use std::time::{Duration, Instant};
use tokio::sync::oneshot;
use tracing::Span;

#[cfg(kani)]
pub fn noop_arc_drop_slow<T: ?Sized, A: std::alloc::Allocator>(_: &mut std::sync::Arc<T, A>) {}

/// `Waker::wake` / `wake_by_ref` -> no-op: wake-ups are not the subject of a table check, and the
/// real ones call through a raw vtable pointer that CBMC resolves by signature.
#[cfg(kani)]
pub fn noop_wake(w: Waker) { std::mem::forget(w) }
#[cfg(kani)]
pub fn noop_wake_by_ref(_: &Waker) {}
#[cfg(kani)]
pub fn noop_waker_drop(_: &mut Waker) {}

const SLOTS: usize = 2;
const EXPIRED: u32 = 0xDEAD_0001;
struct Model { present: [bool; SLOTS], id: [u64; SLOTS], deadline: [(i64, u32); SLOTS], rx: [Option<oneshot::Receiver<u32>>; SLOTS] }
/// 0 = nothing delivered yet, 1 = value delivered (returned), 2 = sender gone without a value
fn peek(rx: &mut oneshot::Receiver<u32>) -> (u8, u32) {
    match rx.try_recv() {
        Ok(v) => (1, v),
        Err(oneshot::error::TryRecvError::Empty) => (0, 0),
        Err(oneshot::error::TryRecvError::Closed) => (2, 0),
    }
}
impl Model {
    fn find(&self, id: u64) -> usize { let mut i = 0; while i < SLOTS { if self.present[i] && self.id[i] == id { return i; } i += 1; } SLOTS }
    fn free(&self) -> usize { let mut i = 0; while i < SLOTS { if !self.present[i] { return i; } i += 1; } SLOTS }
    fn count(&self) -> usize { let mut n = 0; let mut i = 0; while i < SLOTS { if self.present[i] { n += 1; } i += 1; } n }
    fn take(&mut self, i: usize) -> (u8, u32) {
        self.present[i] = false;
        let mut rx = self.rx[i].take().unwrap();
        let r = peek(&mut rx);
        std::mem::forget(rx);
        r
    }
    /// every call still tracked has received nothing so far
    fn others_undisturbed(&mut self) {
        let mut i = 0;
        while i < SLOTS {
            if self.present[i] { if let Some(rx) = self.rx[i].as_mut() { assert!(peek(rx).0 == 0); } }
            i += 1;
        }
    }
}
fn le(a: (i64, u32), b: (i64, u32)) -> bool { a.0 < b.0 || (a.0 == b.0 && a.1 <= b.1) }
fn ctx_with(d: (i64, u32)) -> crate::context::Context {
    let mut c: crate::context::Context = unsafe { std::mem::zeroed() };
    c.deadline = mk_instant(d.0, d.1);
    c
}
fn invariant(t: &InFlightRequests<u32>, m: &mut Model) {
    assert!(t.len() == m.count());
    assert!(t.is_empty() == (m.count() == 0));
    assert!(t.deadlines.len() == t.request_data.len());      // one timer per tracked call, no orphans
    m.others_undisturbed();
}

fn run(steps: usize) {
    let mut t: InFlightRequests<u32> = InFlightRequests::default();
    let mut m = Model { present: [false; SLOTS], id: [0; SLOTS], deadline: [(0, 0); SLOTS], rx: [None, None] };
    let mut now = (any_u16() as i64 + 10, 0u32);
    set_now(now.0, now.1);
    let ids = [any_u64(), any_u64()];
    let mut saw_unknown = false; let mut saw_expiry = false; let mut saw_reply_with_other = false;
    let mut step = 0;
    while step < steps {
        let op = any_u8();
        assume(op <= 4);
        let id = ids[(any_u8() & 1) as usize];
        if op == 0 {
            let dl = (any_u16() as i64, any_u32() % 1_000_000_000);
            let at = m.find(id);
            let free = m.free();
            assume(at < SLOTS || free < SLOTS);
            let (tx, rx) = oneshot::channel();
            let r = t.insert_request(id, ctx_with(dl), Span::none(), tx);
            match r {
                Ok(()) => {
                    assert!(at == SLOTS);
                    m.present[free] = true; m.id[free] = id; m.deadline[free] = dl; m.rx[free] = Some(rx);
                    let armed = instant_parts(t.deadlines.due_of_value(&id));
                    if le(now, dl) { assert!(armed == dl); } else { assert!(armed == now); }
                }
                Err(_) => { assert!(at < SLOTS); std::mem::forget(rx); }
            }
        } else if op == 1 {
            // a response with this id arrives
            let v = any_u32();
            assume(v != EXPIRED);
            let at = m.find(id);
            let r = t.complete_request(id, v);
            let some = r.is_some();
            std::mem::forget(r);
            assert!(some == (at < SLOTS));
            if at < SLOTS {
                let got = m.take(at);
                assert!(got.0 == 1 && got.1 == v);                  // exactly that call gets exactly that body
                if m.count() == 1 { saw_reply_with_other = true; }
            } else { saw_unknown = true; }
        } else if op == 2 {
            // the caller abandoned the call
            let at = m.find(id);
            let r = t.cancel_request(id);
            match &r {
                Some((c, _)) => { assert!(at < SLOTS); assert!(instant_parts(c.deadline) == m.deadline[at]); }
                None => { assert!(at == SLOTS); }
            }
            std::mem::forget(r);
            if at < SLOTS { let got = m.take(at); assert!(got.0 == 2); }   // nothing is delivered to it
        } else if op == 3 {
            let dt = any_u16() as i64;
            now = (now.0 + dt, now.1);
            set_now(now.0, now.1);
            let mut cx = Context::from_waker(Waker::noop());
            let r = t.poll_expired(&mut cx, || EXPIRED);
            let mut due = SLOTS; let mut i = 0;
            while i < SLOTS { if m.present[i] && le(m.deadline[i], now) { due = i; } i += 1; }
            match r {
                Poll::Ready(Some(got_id)) => {
                    let at = m.find(got_id);
                    assert!(at < SLOTS);
                    assert!(le(m.deadline[at], now));               // never before its deadline
                    let got = m.take(at);
                    assert!(got.0 == 1 && got.1 == EXPIRED);        // the call fails with the deadline error
                    saw_expiry = true;
                }
                Poll::Ready(None) => { assert!(m.count() == 0); }
                Poll::Pending => { assert!(due == SLOTS && m.count() > 0); }
            }
        } else {
            // connection lost: every outstanding call is failed
            let v = any_u32();
            {
                let it = t.complete_all_requests(|| v);
                let mut n = 0;
                for s in it { std::mem::forget(s); n += 1; }
                assert!(n == m.count());
            }
            let mut i = 0;
            while i < SLOTS { if m.present[i] { let got = m.take(i); assert!(got.0 == 1 && got.1 == v); } i += 1; }
        }
        invariant(&t, &mut m);
        step += 1;
    }
    witness!(saw_unknown, "a response for an id that is not outstanding was ignored");
    witness!(saw_expiry, "a call expired");
    witness!(saw_reply_with_other, "a reply completed one call while another stayed outstanding");
    std::mem::forget(t);
    std::mem::forget(m);
}

/// C01 directed: two calls outstanding; replies arrive out of order, twice, and for an id that was
/// never issued.
fn routing_scenario() {
    let mut t: InFlightRequests<u32> = InFlightRequests::default();
    set_now(100, 0);
    let (a, b, c) = (any_u64(), any_u64(), any_u64());
    assume(a != b && c != a && c != b);
    let (va, vb, vc) = (any_u32(), any_u32(), any_u32());
    let (txa, mut rxa) = oneshot::channel();
    let (txb, mut rxb) = oneshot::channel();
    assert!(t.insert_request(a, ctx_with((500, 0)), Span::none(), txa).is_ok());
    assert!(t.insert_request(b, ctx_with((600, 0)), Span::none(), txb).is_ok());
    // unsolicited id: ignored
    let r = t.complete_request(c, vc); assert!(r.is_none()); std::mem::forget(r);
    assert!(peek(&mut rxa).0 == 0 && peek(&mut rxb).0 == 0 && t.len() == 2);
    // b answered first
    let r = t.complete_request(b, vb); assert!(r.is_some()); std::mem::forget(r);
    let gb = peek(&mut rxb);
    assert!(gb.0 == 1 && gb.1 == vb);
    assert!(peek(&mut rxa).0 == 0 && t.len() == 1);
    // duplicate answer for b: late, ignored
    let r = t.complete_request(b, vc); assert!(r.is_none()); std::mem::forget(r);
    assert!(peek(&mut rxa).0 == 0 && t.len() == 1);
    // then a
    let r = t.complete_request(a, va); assert!(r.is_some()); std::mem::forget(r);
    let ga = peek(&mut rxa);
    assert!(ga.0 == 1 && ga.1 == va);
    assert!(t.is_empty() && t.deadlines.len() == 0);
    witness!(va != vb, "different bodies");
    witness!(a > b, "ids in descending order");
    std::mem::forget(rxa); std::mem::forget(rxb); std::mem::forget(t);
}

macro_rules! table_harnesses {
    ($( fn $name:ident() [unwind $u:literal] $body:block )*) => {
        $(
            #[cfg_attr(kani, kani::proof)]
            #[cfg_attr(kani, kani::unwind($u))]
            #[cfg_attr(kani, kani::stub(std::rt::thread_cleanup, crate::nd::noop))]
            #[cfg_attr(kani, kani::stub(std::time::Instant::now, crate::nd::stub_now))]
            #[cfg_attr(kani, kani::stub(alloc::fmt::format, crate::nd::stub_format))]
            #[cfg_attr(kani, kani::stub(tracing::span::Span::do_enter, crate::nd::noop_span))]
            #[cfg_attr(kani, kani::stub(tracing::span::Span::do_exit, crate::nd::noop_span))]
            #[cfg_attr(kani, kani::stub(alloc::sync::Arc::drop_slow, super::verif_overlay_cift::noop_arc_drop_slow))]
            #[cfg_attr(kani, kani::stub(core::task::wake::Waker::wake, super::verif_overlay_cift::noop_wake))]
            #[cfg_attr(kani, kani::stub(core::task::wake::Waker::wake_by_ref, super::verif_overlay_cift::noop_wake_by_ref))]
            #[cfg_attr(kani, kani::stub(<core::task::wake::Waker as core::ops::Drop>::drop, super::verif_overlay_cift::noop_waker_drop))]
            pub fn $name() $body
        )*
        pub const HARNESSES: &[(&str, fn())] = &[ $( (stringify!($name), $name as fn()) ),* ];
    };
}
table_harnesses! {
    fn cift_routing_out_of_order() [unwind 4] { routing_scenario() }
    fn cift_steps2() [unwind 4] { run(2) }
    fn cift_steps3() [unwind 5] { run(3) }
}

#[cfg(all(test, verif_replay))]
#[test]
fn verif_replay_entry_cift() {
    let name = std::env::var("VERIF_REPLAY_HARNESS").expect("VERIF_REPLAY_HARNESS");
    load_values();
    for (n, f) in HARNESSES {
        if *n == name { f(); println!("REPLAY-PASSED {}", name); return; }
    }
    panic!("unknown harness");
}
