#!/usr/bin/env python3
"""setup_cmd: offline warm-up. Verifies the tools are present; builds nothing that the checks do not rebuild themselves."""
import shutil, subprocess, sys, os
need = ["cargo", "cbmc", "python3"]
missing = [t for t in need if shutil.which(t) is None]
r = subprocess.run(["cargo", "kani", "--version"], capture_output=True, text=True)
if r.returncode != 0:
    missing.append("cargo-kani")
if missing:
    print("missing tools:", missing); sys.exit(1)
os.makedirs(os.path.join(os.path.dirname(os.path.abspath(__file__)), ".cache"), exist_ok=True)
print("setup ok:", r.stdout.strip().splitlines()[0])
